"""
C16 — block decomposition / sequential ordering (thin claim).

  R1  Invariant.reorder_equations validates that the new order is a permutation of 0..n-1 (and raises otherwise)
      before its first store: an invalid order leaves the model untouched
  R2  Sequential.sequentialize computes the order (the step that can fail) before it calls the mutator, and the
      already-sequential path mutates nothing
"""
from __future__ import annotations

import ast

from .. import flow
from ..core import AnalysisError, dotted, unparse, params, walk_no_nested, strip_docstring, calls_to

IMOD = "irispie.sequentials._invariants"
SMOD = "irispie.sequentials.main"
BMOD = "irispie.incidences.blazer"


class GuardFlow(flow.Analysis):
    """state: frozenset of facts; 'checked' once the permutation test took its non-raising branch"""

    def __init__(self, param):
        self.param = param
        self.unguarded = []
        self.guard_nodes = []

    def is_perm_test(self, test):
        if isinstance(test, ast.Compare) and len(test.ops) == 1 and isinstance(test.ops[0], (ast.NotEq, ast.Eq)):
            sides = {unparse(test.left).replace(" ", ""), unparse(test.comparators[0]).replace(" ", "")}
            want_a = f"sorted({self.param})"
            want_b = {"list(range(self.num_equations))", "list(range(len(self.explanatories)))"}
            if want_a in sides and (sides - {want_a}) <= want_b and len(sides) == 2:
                return "ne" if isinstance(test.ops[0], ast.NotEq) else "eq"
        return None

    def cond(self, test, state, truth):
        k = self.is_perm_test(test)
        if k:
            self.guard_nodes.append(test)
            valid = (k == "ne" and truth is False) or (k == "eq" and truth is True)
            return frozenset(state | {"checked"}) if valid else frozenset(state | {"invalid"})
        return state

    def stmt(self, st, state):
        stores = []
        if isinstance(st, (ast.Assign, ast.AugAssign)):
            for t in (st.targets if isinstance(st, ast.Assign) else [st.target]):
                b = t
                while isinstance(b, (ast.Subscript, ast.Attribute)):
                    if isinstance(b, ast.Attribute) and isinstance(b.value, ast.Name) and b.value.id == "self":
                        stores.append(b.attr)
                    b = b.value
        calls = [n for n in ast.walk(st) if isinstance(n, ast.Call) and isinstance(n.func, ast.Attribute)
                 and isinstance(n.func.value, ast.Name) and n.func.value.id == "self"
                 and n.func.attr in ("collect_names", "finalize_explanatories", "collect_lhs_names", "collect_residual_names", "collect_rhs_only_names")]
        if (stores or calls) and "checked" not in state:
            self.unguarded.append(st)
        return state


PREFETCH_CASES = (
    ("lower triangular 3x3", [[1, 0, 0], [1, 1, 0], [0, 1, 1]]),
    ("permuted singletons 2x2", [[0, 1], [1, 0]]),
    ("permuted triangular 3x3", [[0, 1, 1], [0, 0, 1], [1, 1, 1]]),
    ("permuted triangular 4x4", [[1, 0, 1, 1], [0, 0, 1, 0], [1, 1, 1, 1], [0, 0, 1, 1]]),
    ("2x2 cycle only", [[1, 1], [1, 1]]),
    ("cycle with a first and a last singleton", [[1, 0, 0, 0], [1, 1, 1, 0], [0, 1, 1, 0], [0, 1, 1, 1]]),
    ("nested peeling: a singleton appears after the first pass", [[1, 0, 0, 0], [1, 1, 0, 0], [0, 1, 1, 1], [1, 0, 1, 1]]),
    ("last-singletons found at two depths", [[1, 1, 0, 0], [1, 1, 0, 0], [1, 0, 1, 0], [0, 1, 1, 1]]),
    ("diagonal 3x3", [[1, 0, 0], [0, 1, 0], [0, 0, 1]]),
    ("reverse diagonal 3x3", [[0, 0, 1], [0, 1, 0], [1, 0, 0]]),
    ("upper triangular 3x3", [[1, 1, 1], [0, 1, 1], [0, 0, 1]]),
    ("two cycles chained", [[1, 1, 0, 0], [1, 1, 0, 0], [1, 0, 1, 1], [0, 0, 1, 1]]),
    ("1x1", [[1]]),
)


def _prefetch_by_evaluation(chk, rid, bm):
    """prefetch (with the helpers it calls, recursion included) evaluated on small incidence matrices with labelled ids: what it peels
    off is a VALID ordering - k-th first/last equation paired with the k-th first/last quantity which occurs in it, every equation reads
    only quantities of its own or earlier blocks, the three parts partition the ids, the remainder is the matching submatrix and has no
    row or column with a single incidence left (nothing more can be peeled)"""
    from .. import fin, incidence
    f = bm.func("prefetch")
    for q in ("prefetch", "_prefetch_first", "_prefetch_last", "_split_ids"):
        if bm.has(q):
            chk.saw(bm, q)
    helpers = fin.module_funcs(bm, dict(incidence.FUNCS))
    cases = list(PREFETCH_CASES)
    if chk.tier == "thorough":
        # every 0/1 matrix of size 2 and 3 that contains a perfect matching (343 matrices), and the 4x4 ones with a full diagonal and at
        # most 4 off-diagonal incidences
        import itertools
        for n_ in (2, 3):
            for bits in itertools.product((0, 1), repeat=n_ * n_):
                rows_ = [list(bits[i * n_:(i + 1) * n_]) for i in range(n_)]
                if any(all(rows_[i][pm[i]] for i in range(n_)) for pm in itertools.permutations(range(n_))):
                    cases.append((f"all {n_}x{n_} #{int(''.join(map(str, bits)), 2)}", rows_))
        off = [(i, j) for i in range(4) for j in range(4) if i != j]
        for k in range(0, 5):
            for sel in itertools.combinations(off, k):
                rows_ = [[1 if i == j or (i, j) in sel else 0 for j in range(4)] for i in range(4)]
                cases.append((f"4x4 diag+{sorted(sel)}", rows_))
    for label, rows in cases:
        n = len(rows)
        eids = tuple(10 + i for i in range(n))
        qids = tuple(20 + (j + 1) % n for j in range(n))      # distinct ids in an order different from the positions (a rotation)
        key = f"incidences.blazer.prefetch[{label}]"
        try:
            out = helpers["prefetch"](incidence.IM(rows), eids=eids, qids=qids)
            ef, qf, el, ql, er, qr, rem = [tuple(x) if not isinstance(x, incidence.IM) else x for x in out]
        except (fin.NotFinite, fin.Raised, TypeError, AttributeError, IndexError, ValueError, KeyError) as ex:
            chk.undecided(rid, key, f"not finitely evaluable: {type(ex).__name__}: {ex}", bm.loc(f))
            continue
        inc = {e_: {qids[j] for j in range(n) if rows[i][j]} for i, e_ in enumerate(eids)}
        bad = None
        if sorted(ef + er + el) != sorted(eids) or sorted(qf + qr + ql) != sorted(qids) or len(ef) != len(qf) or len(el) != len(ql) or len(er) != len(qr):
            bad = f"first {ef}/{qf}, remainder {er}/{qr}, last {el}/{ql} do not partition the {n} equations and {n} quantities into pairs"
        if bad is None:
            known = set()
            for e_, q_ in zip(ef, qf):
                if q_ not in inc[e_] or not inc[e_] <= known | {q_}:
                    bad = f"first block pairs equation {e_} (which reads {sorted(inc[e_])}) with quantity {q_} when {sorted(known)} are determined: not solvable there"
                    break
                known.add(q_)
        if bad is None:
            known |= set(qr)
            for e_ in er:
                if not inc[e_] <= known:
                    bad = f"equation {e_} of the simultaneous core reads {sorted(inc[e_] - known)}, which are only determined in the last blocks"
                    break
        if bad is None:
            for e_, q_ in zip(el, ql):
                if q_ not in inc[e_] or not inc[e_] <= known | {q_}:
                    bad = f"last block pairs equation {e_} (which reads {sorted(inc[e_])}) with quantity {q_} when {sorted(known)} are determined: not solvable there"
                    break
                known.add(q_)
        if bad is None:
            want_rem = [[rows[eids.index(e_)][qids.index(q_)] for q_ in qr] for e_ in er]
            got_rem = [[int(bool(x)) for x in r] for r in rem.rows] if isinstance(rem, incidence.IM) else None
            if got_rem != want_rem:
                bad = f"the remaining matrix {got_rem} is not the submatrix of the remaining equations {er} and quantities {qr} ({want_rem})"
            elif any(sum(r) == 1 for r in want_rem) or any(sum(c) == 1 for c in zip(*want_rem)):
                bad = f"the remainder {want_rem} still has a row or a column with a single incidence: peeling stopped early"
        chk.ob(rid, key, bad is None, bad or f"peels {len(ef)} first and {len(el)} last singleton blocks, core {len(er)}x{len(qr)}: a valid ordering", bm.loc(f), sure=True)


def rule_r3(chk, rid="C16-R3"):
    """block-triangular prefetch: order of accumulation and equation/quantity symmetry"""
    from ..core import squash, assignments, assign_value, single_return, tuple_names
    chk.rule(rid, "prefetch peels equations with one unknown (solved first) and quantities in one equation (solved last) recursively: "
             "inner 'first' results are appended AFTER the outer ones, inner 'last' results are placed BEFORE the outer ones; every "
             "statement on an eids list has the identical twin on the qids list; blaze orders first + inner + last and pairs "
             "eids/qids positionally; an inner block closes when no later quantity occurs in its equations", floor=10)
    bm = chk.repo.mod(BMOD)
    f = bm.func("prefetch")
    chk.saw(bm, "prefetch")
    _prefetch_by_evaluation(chk, rid, bm)
    for q in ("prefetch", "blaze", "sequentialize_strictly", "_generate_inner_blocks"):
        g = bm.func(q)
        chk.saw(bm, q)
        e_st = sorted(squash(n) for n in ast.walk(g) if isinstance(n, ast.Assign) and "eids" in squash(n.targets[0]) and "qids" not in squash(n))
        q_st = sorted(squash(n).replace("qids", "eids").replace("shape[1]", "shape[0]") for n in ast.walk(g)
                      if isinstance(n, ast.Assign) and "qids" in squash(n.targets[0]) and "eids" not in squash(n))
        chk.ob(rid, f"incidences.blazer.{q}[eids/qids twins]", e_st == q_st,
               f"{len(e_st)} statement(s) on eids each have the same statement on qids" if e_st == q_st else
               f"asymmetric: {sorted(set(e_st) ^ set(q_st))[:2]}", bm.loc(g))
    bl = bm.func("blaze")
    ok = squash(assignments(bl, "eids")[-1].value) == "eids_first+eids_inner+eids_last" and squash(assign_value(bl, "out_blocks")) == "first_blocks+inner_blocks+last_blocks"
    chk.ob(rid, "incidences.blazer.blaze[order]", ok, "first blocks, then the simultaneous core, then last blocks", bm.loc(bl))
    fb, lb = assign_value(bl, "first_blocks"), assign_value(bl, "last_blocks")
    ok = fb is not None and lb is not None and "Block((eid,),(qid,))foreid,qidinzip(eids_first,qids_first)" in squash(fb) \
        and "Block((eid,),(qid,))foreid,qidinzip(eids_last,qids_last)" in squash(lb)
    chk.ob(rid, "incidences.blazer.blaze[singleton pairing]", ok, "k-th first/last equation is paired with the k-th first/last quantity", bm.loc(bl))
    gi = bm.func("_generate_inner_blocks")
    bs = assign_value(gi, "block_size")
    ok = bs is not None and "ifnotim[:i,i:].any()" in squash(bs) and "range(1,im.shape[0]+1)" in squash(bs)
    chk.ob(rid, "incidences.blazer._generate_inner_blocks[block closes]", ok if bs is not None else None,
           "smallest i with no incidence of equations 0..i-1 on quantities i.. (block-triangular from below)", bm.loc(gi))
    # _split_ids keeps the ORDER of the matched positions: the k-th extracted equation is paired with the k-th extracted quantity
    from .. import fin
    sp = bm.func("_split_ids")
    chk.saw(bm, "_split_ids")
    try:
        cases = [((10, 11, 12, 13), (2, 0)), ((10, 11, 12, 13), (1, 3)), ((7, 8, 9), ()), ((7, 8, 9), (2, 1, 0))]
        bad = None
        for ids, index in cases:
            got = fin.run_function(sp, {params(sp)[0]: ids, params(sp)[1]: index})
            want = (tuple(ids[i] for i in index), tuple(x for i, x in enumerate(ids) if i not in index))
            if tuple(map(tuple, got)) != want:
                bad = (ids, index, got, want)
                break
        chk.ob(rid, "incidences.blazer._split_ids[order of matched positions]", bad is None,
               "extracted ids follow the order of the index list (which is paired with the other side's index list), the rest keeps its order"
               if bad is None else f"_split_ids{bad[:2]} = {bad[2]} (want {bad[3]}): the pairing equation<->quantity of the prefetched 1x1 blocks is lost", bm.loc(sp), sure=True)
    except fin.NotFinite as ex:
        chk.undecided(rid, "incidences.blazer._split_ids[order of matched positions]", str(ex), bm.loc(sp))


def rule_r4(chk):
    from ..core import squash, single_return
    chk.rule("C16-R4", "a failed strict sequentialization cannot be stored: on the failing path sequentialize_strictly either raises, or "
             "returns an order built only from the prefetched first/last equations - never including the unresolved remainder - so "
             "that reorder_equations (C16-R1) rejects it as not a permutation", floor=2)
    from .. import fin, incidence
    bm = chk.repo.mod(BMOD)
    f = bm.func("sequentialize_strictly")
    chk.saw(bm, "sequentialize_strictly")
    helpers = fin.module_funcs(bm, dict(incidence.FUNCS, **{"_wrongdoings.IrisPieError": lambda *a, **k: ("error object",) + a,
                                                                "_wrongdoings.IrisPieCritical": lambda *a, **k: ("error object",) + a}))
    cases = (
        ("sequential as written", [[1, 0, 0], [1, 1, 0], [0, 1, 1]], True),
        ("sequential after reordering", [[1, 1, 0], [0, 1, 0], [1, 0, 1]], True),
        ("two equations determine each other", [[1, 1, 0], [1, 1, 0], [0, 1, 1]], False),
        ("cycle of three", [[1, 1, 0], [0, 1, 1], [1, 0, 1]], False),
        ("cycle behind a sequential head", [[1, 0, 0, 0], [1, 1, 1, 0], [0, 1, 1, 0], [0, 0, 1, 1]], False),
        ("reverse order", [[1, 1, 1], [0, 1, 1], [0, 0, 1]], True),
    )
    for label, rows, sequential in cases:
        n = len(rows)
        key = f"incidences.blazer.sequentialize_strictly[{label}]"
        try:
            try:
                order = tuple(helpers["sequentialize_strictly"](incidence.IM(rows)))
                raised = False
            except fin.Raised:
                order, raised = None, True
        except (fin.NotFinite, TypeError, AttributeError, IndexError, ValueError, KeyError) as ex:
            chk.undecided("C16-R4", key, f"not finitely evaluable: {type(ex).__name__}: {ex}", bm.loc(f))
            continue
        is_perm = order is not None and sorted(order) == list(range(n))
        if sequential:
            bad = None
            if not is_perm:
                bad = f"a valid order exists but the result is {'an error' if raised else order}"
            else:
                known = set()
                for e_ in order:
                    reads = {j for j in range(n) if rows[e_][j]}
                    if not reads <= known | {e_}:
                        bad = f"order {order}: equation {e_} reads the left-hand variables {sorted(reads - known - {e_})} of equations that come later"
                        break
                    known.add(e_)
            chk.ob("C16-R4", key, bad is None, bad or f"order {order}: every equation reads only its own and earlier left-hand variables", bm.loc(f), sure=True)
        else:
            chk.ob("C16-R4", key, raised or not is_perm,
                   ("raises" if raised else f"returns {order}, not a permutation of 0..{n - 1}: reorder_equations (C16-R1) rejects it and the model stays untouched")
                   if (raised or not is_perm) else f"no valid order exists, yet the full permutation {order} is returned: a model with simultaneity is silently "
                   "reordered and reported sequential", bm.loc(f), sure=True)


def rule_r5(chk, rid="C16-R5"):
    chk.rule(rid, "the incidence matrix that is_sequential / sequentialize work on records exactly the SAME-PERIOD occurrences of left-hand-side "
             "variables: entry (i, j) is set iff equation i contains the token (j, shift 0) with j a left-hand-side name - lags and leads of "
             "left-hand variables and right-hand-only names are no dependency (a lead counted as one makes a valid order look cyclic): "
             "Sequential.incidence_matrix composed with equations.calculate_incidence_matrix, evaluated finitely", floor=1, shape_independent=True)
    from .. import fin
    sm = chk.repo.mod(SMOD)
    em = chk.repo.mod("irispie.equations")
    f = sm.func("Sequential.incidence_matrix")
    g = em.func("calculate_incidence_matrix")
    chk.saw(sm, "Sequential.incidence_matrix")
    chk.saw(em, "calculate_incidence_matrix")
    tok = lambda q, s_: fin.FinObj(qid=q, shift=s_)
    eqs = [
        [(0, 0), (1, -1), (2, 1), (3, 0)],
        [(1, 0), (0, 0), (3, 0), (2, -2)],
        [(2, 0), (1, 1), (0, -2), (4, 0)],
        [(0, 1), (1, 2), (2, -1)],
    ]
    num_lhs = 3
    equations = tuple(fin.FinObj(incidence=tuple(tok(*t) for t in e)) for e in eqs)
    me = fin.FinObj(lhs_names=("a", "b", "c"), equations=equations, num_lhs_names=num_lhs, num_equations=len(eqs),
                    _invariant=fin.FinObj(num_lhs_names=num_lhs, num_equations=len(eqs)))
    funcs = dict(fin.MATRIX_FUNCS)
    def calc(*a, **k):
        ps = [x.arg for x in g.args.posonlyargs + g.args.args]
        bound = dict(zip(ps, a))
        bound.update(k)
        for nm, d in zip(reversed(ps), reversed(g.args.defaults)):
            bound.setdefault(nm, "bool")
        return fin.run_function(g, bound, funcs)
    funcs["_equations.calculate_incidence_matrix"] = calc
    try:
        got = fin.run_function(f, {params(f)[0]: me}, funcs)
        rows = [[bool(x) for x in r] for r in got.rows]
    except (fin.NotFinite, fin.Raised, TypeError, AttributeError, IndexError) as ex:
        chk.undecided(rid, "sequentials.main.Sequential.incidence_matrix", f"not finitely evaluable: {type(ex).__name__}: {ex}", sm.loc(f))
        return
    want = [[any(q == j and s_ == 0 for q, s_ in e) for j in range(num_lhs)] for e in eqs]
    bad = None
    for i, (r, w) in enumerate(zip(rows, want)):
        for j, (a, b) in enumerate(zip(r, w)):
            if a != b and bad is None:
                occ = [t for t in eqs[i] if t[0] == j]
                bad = (f"equation {i} with tokens {eqs[i]}: entry ({i}, {j}) is {a}, but variable {j} occurs there as {occ or 'nothing'} "
                       f"- {'a lag/lead is counted as a same-period dependency' if a else 'a same-period dependency is lost'}")
    if len(rows) != len(eqs) or any(len(r) != num_lhs for r in rows):
        bad = f"matrix is {len(rows)}x{len(rows[0]) if rows else 0}, expected {len(eqs)}x{num_lhs}"
    chk.ob(rid, "sequentials.main.Sequential.incidence_matrix", bad is None, bad or f"{len(eqs)} equations x {num_lhs} left-hand names: exactly the shift-0 occurrences are marked",
           sm.loc(f), sure=True)


def run(chk):
    chk.guard(rule_r5, chk)
    chk.rule("C16-R1", "in Invariant.reorder_equations every store to self.* (and every call of a self-mutating collector) is reached "
             "only on paths where sorted(new_order) == list(range(num_equations)) held; the failing branch raises", floor=3)
    chk.rule("C16-R2", "Sequential.sequentialize obtains the order from sequentialize_strictly before calling reorder_equations with "
             "that same value, and returns without mutation when the model is already sequential", floor=3)
    im = chk.repo.mod(IMOD)
    f = im.func("Invariant.reorder_equations")
    chk.saw(im, "Invariant.reorder_equations")
    p = params(f)[1]
    an = GuardFlow(p)
    exits = flow.run(an, strip_docstring(f.body), frozenset())
    chk.ob("C16-R1", "sequentials._invariants.Invariant.reorder_equations[guard exists]", bool(an.guard_nodes),
           f"permutation test on {p!r} found" if an.guard_nodes else "no test that the new order is a permutation of 0..n-1", im.loc(f))
    chk.ob("C16-R1", "sequentials._invariants.Invariant.reorder_equations[guard dominates stores]", not an.unguarded,
           "all stores/collector calls happen after the successful permutation test" if not an.unguarded else
           f"reached without the test: {[unparse(s)[:60] for s in an.unguarded[:2]]}", im.loc(an.unguarded[0]) if an.unguarded else im.loc(f))
    bad_exits = [e for e in exits if e[0] in ("return", "fall") and "invalid" in e[1]]
    chk.ob("C16-R1", "sequentials._invariants.Invariant.reorder_equations[invalid order raises]", not bad_exits,
           "the invalid branch ends in raise" if not bad_exits else "an invalid order can reach a normal exit", im.loc(f))
    # the store uses the validated parameter
    st = [n for n in walk_no_nested(f) if isinstance(n, ast.Assign) and unparse(n.targets[0]) == "self.explanatories"]
    ok = len(st) == 1 and unparse(st[0].value).replace(" ", "") == f"[self.explanatories[i]foriin{p}]"
    chk.ob("C16-R1", "sequentials._invariants.Invariant.reorder_equations[store]", ok,
           f"explanatories are re-indexed by the validated {p!r}", im.loc(f))
    sm = chk.repo.mod(SMOD)
    g = sm.func("Sequential.sequentialize")
    chk.saw(sm, "Sequential.sequentialize")
    body = strip_docstring(g.body)
    calls = [(n.lineno, n) for n in ast.walk(g) if isinstance(n, ast.Call)]
    strict = [n for _, n in calls if dotted(n.func) and dotted(n.func).endswith("sequentialize_strictly")]
    reorder = [n for _, n in calls if dotted(n.func) == "self.reorder_equations"]
    ok = len(strict) == 1 and len(reorder) == 1 and strict[0].lineno < reorder[0].lineno
    chk.ob("C16-R2", "sequentials.main.Sequential.sequentialize[order]", ok,
           "order is computed (may raise) before reorder_equations mutates", sm.loc(g))
    asg = [n for n in walk_no_nested(g) if isinstance(n, ast.Assign) and n.value in strict]
    ok = len(asg) == 1 and reorder and len(reorder[0].args) == 1 and unparse(reorder[0].args[0]) == unparse(asg[0].targets[0])
    chk.ob("C16-R2", "sequentials.main.Sequential.sequentialize[same value]", ok,
           "reorder_equations receives exactly the computed order", sm.loc(g))
    from ..core import conditions_at
    # every mutating call is reached only when the model is NOT already sequential, and some path returns under "is sequential"
    muts = reorder + [n for _, n in calls if dotted(n.func) and dotted(n.func).startswith("self.reorder")]
    guarded = all(("self.is_sequential", False) in conditions_at(g, c) for c in muts) if muts else None
    rets = [r for r in walk_no_nested(g) if isinstance(r, ast.Return)]
    returns_early = any(("self.is_sequential", True) in conditions_at(g, r) for r in rets)
    ok = (guarded and returns_early) if guarded is not None else None
    chk.ob("C16-R2", "sequentials.main.Sequential.sequentialize[already sequential]", ok,
           "returns the identity order without touching the model", sm.loc(g))
    # reorder_equations on the model delegates to the invariant
    if sm.has("Sequential.reorder_equations"):
        h = sm.func("Sequential.reorder_equations")
        ok = any(isinstance(n, ast.Call) and unparse(n.func) == "self._invariant.reorder_equations" for n in ast.walk(h))
        stores = [n for n in walk_no_nested(h) if isinstance(n, (ast.Assign, ast.AugAssign))
                  and any(isinstance(x, ast.Attribute) and isinstance(x.value, ast.Name) and x.value.id == "self" and isinstance(x.ctx, ast.Store) for x in ast.walk(n))]
        first_call = min((n.lineno for n in ast.walk(h) if isinstance(n, ast.Call) and unparse(n.func) == "self._invariant.reorder_equations"), default=10**9)
        early = [s for s in stores if s.lineno < first_call]
        chk.ob("C16-R2", "sequentials.main.Sequential.reorder_equations", ok and not early,
               "delegates to the invariant (which validates) before any own store", sm.loc(h))
    chk.guard(rule_r3, chk)
    chk.guard(rule_r4, chk)
    # diagnostic: exceptions constructed but not raised
    bm = chk.repo.mod(BMOD)
    for q, fn in bm.functions():
        for n in walk_no_nested(fn):
            if isinstance(n, ast.Expr) and isinstance(n.value, ast.Call) and dotted(n.value.func) and \
                    dotted(n.value.func).split(".")[-1].endswith(("Error", "Critical", "Exception")):
                chk.note(f"{bm.loc(n)} {q}: exception object is built but not raised ({unparse(n.value)[:60]}); the caller's permutation "
                         "test in reorder_equations still rejects an incomplete order, so the stated behaviour holds (diagnostic only)")
    from .. import unused as _unused
    chk.guard(_unused.apply, chk, "C16-R91")
    from .. import args as _args
    chk.guard(_args.apply, chk, "C16-R90", {'incidences', 'sequentials'}, 1)
    chk.assumptions = [
        "validity of the block-triangular decomposition for arbitrary incidence matrices is combinatorial, data-dependent numpy code: NOT decided",
        "implicit exceptions inside collect_names/finalize after a valid permutation are out of scope",
    ]

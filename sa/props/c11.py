"""
C11 — period conversions round-trip; frequency conversion preserves containment.

  R1  language of every to_sdmx_string is included in its detection pattern, has the declared length, and
      detection patterns that can see the same string are disjoint (auto-detection is unambiguous)
  R2  each from_sdmx_string / from_iso_string splits on the literal its writer emits and feeds the fields to
      the constructor in writer order; __repr__ names a constructor bound in the module with matching arity
  R3  refrequent is from_ymd o to_ymd(position); with the calendar tables: containment, monotonicity,
      coarse -> fine -> coarse is the identity for every position
  R4  PERIOD_CLASS_FROM_FREQUENCY_RESOLUTION maps every frequency to the class whose `frequency` is that key
"""
from __future__ import annotations

import ast
import re

from .. import fin, rx
from ..core import AnalysisError, dotted, unparse, params, walk_no_nested, strip_docstring, literal
from ..tpl import eval_str, run_str_function, NotAString
from .c09 import REGULAR, month_tables, month_to_segment, resolve_method, _freq_values

MOD = "irispie.dates"
CLASSES = {"YEARLY": "YearlyPeriod", "HALFYEARLY": "HalfyearlyPeriod", "QUARTERLY": "QuarterlyPeriod",
           "MONTHLY": "MonthlyPeriod", "DAILY": "DailyPeriod", "INTEGER": "IntegerPeriod"}


def _field_regex(expr_src: str, spec: str, cname: str):
    """Regex fragment for one f-string field of a writer (years 0..9999 supported domain)."""
    f = REGULAR.get(cname)
    e = expr_src.replace(" ", "")
    if e in ("year", "self.get_year()") and spec == "04g":
        return r"\d{4}"
    if e == "per" and spec == "1g" and f and f < 10:
        return "[1-%d]" % f
    if e == "per" and spec == "02g" and f == 12:
        return r"(?:0[1-9]|1[0-2])"
    if e == "month" and spec == "02g":
        return r"(?:0[1-9]|1[0-2])"
    if e == "day" and spec == "02g":
        return r"(?:0[1-9]|[12]\d|3[01])"
    if e == "self.serial" and spec in ("", "d"):
        return r"-?\d+"
    if e == "self.serial" and spec == "g":
        # general format of an unbounded integer: six significant digits, exponent notation from 1e+06 on
        return r"-?(?:\d{1,6}|\d(?:\.\d{1,5})?e\+\d\d+)"
    return None


def writer_regex(m, cname, meth="to_sdmx_string"):
    """(regex, template-with-markers) of the f-string returned by cname.<meth>."""
    c, f = resolve_method(m, cname, meth)
    if f is None:
        raise AnalysisError(f"anchor vanished: {cname}.{meth}")
    rets = [n for n in walk_no_nested(f) if isinstance(n, ast.Return)]
    if len(rets) != 1 or not isinstance(rets[0].value, ast.JoinedStr):
        raise AnalysisError(f"{cname}.{meth} does not return a single f-string")
    freq = dotted(m.class_attr(cname, "frequency")).split(".")[-1]
    parts, marks = [], []
    for v in rets[0].value.values:
        if isinstance(v, ast.Constant):
            parts.append(("lit", str(v.value)))
            marks.append(str(v.value))
        else:
            src = unparse(v.value)
            spec = eval_str(v.format_spec, {}) if v.format_spec is not None else ""
            if src.replace(" ", "") == "self.frequency.letter":
                parts.append(("lit", freq[0]))
                marks.append(freq[0])
                continue
            r = _field_regex(src, spec, cname)
            if r is None:
                raise AnalysisError(f"{cname}.{meth}: unknown field {{{src}:{spec}}}")
            parts.append(("re", r))
            marks.append("‹" + src.replace("self.get_year()", "year").replace("self.", "") + "›")
    return f, rx.regex_escape_template(parts), "".join(marks)


def rule_r1(chk, m):
    chk.rule("C11-R1", "L(to_sdmx_string) is a subset of L(detection pattern) with every string of the declared length; detection "
             "entries that can both see a string of one length have disjoint languages; Frequency.from_sdmx_string tests length and fullmatch",
             floor=12, shape_independent=True)
    tab = m.assign("SDMX_REXP_FORMATS")
    chk.saw(m, "SDMX_REXP_FORMATS")
    # the table by evaluation of the module-level constants (a literal, or built from rows / fragments)
    consts = fin.module_constants(m, {f"Frequency.{k}": k for k in _freq_values(m)}, {"_re.compile": lambda p_, *a, **k: ("re", p_)})
    table = consts.get("SDMX_REXP_FORMATS")
    if not isinstance(table, dict) or not table or not all(isinstance(v, tuple) and len(v) == 2 and isinstance(v[1], tuple) and v[1][0] == "re" for v in table.values()):
        raise AnalysisError("SDMX_REXP_FORMATS is not a table frequency -> (length, compiled pattern) built from constants")
    det = {}
    for k, (length, (_, pat)) in table.items():
        det[str(k)] = (length, pat, tab)
    dfas = {}
    for fname, (length, pat, node) in det.items():
        try:
            dfas[fname] = rx.compile_regex(pat)
        except rx.Unsupported as e:
            chk.undecided("C11-R1", f"dates.SDMX_REXP_FORMATS[{fname}]", f"pattern not regular: {e}", m.loc(node))
    for fname, cname in CLASSES.items():
        if fname not in det:
            chk.bad("C11-R1", f"dates.{cname}.to_sdmx_string", f"no detection pattern for Frequency.{fname}", m.loc(tab))
            continue
        length, pat, node = det[fname]
        f, wre, marks = writer_regex(m, cname)
        chk.saw(m, f"{cname}.to_sdmx_string")
        try:
            w = rx.compile_regex(wre)
        except rx.Unsupported as e:
            chk.undecided("C11-R1", f"dates.{cname}.to_sdmx_string", str(e), m.loc(f))
            continue
        if fname not in dfas:
            continue
        inc, wit = rx.included(w, dfas[fname])
        chk.ob("C11-R1", f"dates.{cname}.to_sdmx_string[subset of detection pattern]", inc,
               f"writer {marks} ~ /{wre}/ vs detection /{pat}/" + ("" if inc else f"; e.g. {wit!r} is written but not detected"), m.loc(f),
               facts={"writer_regex": wre, "pattern": pat, "witness": wit})
        if length is not None:
            other = rx.compile_regex(r".{%d}" % length)
            inc2, wit2 = rx.included(w, other)
            chk.ob("C11-R1", f"dates.{cname}.to_sdmx_string[declared length {length}]", inc2,
                   "every written string has the declared length" if inc2 else f"{wit2!r} has length {len(wit2)}", m.loc(f))
    # ambiguity: iteration order = dict order, first match wins; require disjointness for entries that can see the same length
    names = list(det)
    for i, a in enumerate(names):
        for b in names[i + 1:]:
            if a not in dfas or b not in dfas:
                continue
            la, lb = det[a][0], det[b][0]
            if la is not None and lb is not None and la != lb:
                continue
            L = la if la is not None else lb
            wit = rx.intersect_witness(dfas[a], dfas[b], L)
            chk.ob("C11-R1", f"dates.SDMX_REXP_FORMATS[{a} vs {b}]", wit is None,
                   "disjoint" if wit is None else f"{wit!r} matches both {a} and {b}", m.loc(tab))
    f = m.func("Frequency.from_sdmx_string")
    chk.saw(m, "Frequency.from_sdmx_string")
    # the detector by finite evaluation on a stand-in table: first entry (in table order) whose declared length (if any) and whole
    # pattern match the stripped string; nothing matches -> an error
    import re as _pyre

    def _pat(p_):
        return fin.FinObj(fullmatch=lambda s_, *a, _p=p_: _pyre.fullmatch(_p, s_), match=lambda s_, *a, _p=p_: _pyre.match(_p, s_),
                          search=lambda s_, *a, _p=p_: _pyre.search(_p, s_), pattern=p_)
    stand_in = {"F4": (4, _pat(r"\d{4}")), "F7a": (7, _pat(r"\d{4}-A\d")), "F7b": (7, _pat(r"\d{4}-\d\d")), "FANY": (None, _pat(r"\(\d+\)")),
                "LATE4": (4, _pat(r"\d{4}"))}
    cases = (("2020", "F4"), (" 2020 ", "F4"), ("2020-A1", "F7a"), ("2020-12", "F7b"), ("(12345678)", "FANY"), ("(7)", "FANY"),
             ("2020-123", None), ("20201", None), ("2020-A12", None), ("x2020", None), ("", None))
    bad = None
    try:
        helpers = fin.module_funcs(m, {"_wrongdoings.IrisPieCritical": lambda *a: ("error",) + a, "_wrongdoings.IrisPieError": lambda *a: ("error",) + a})
        for text, want in cases:
            try:
                got = fin.run_function(f, {params(f)[0]: None, params(f)[1]: text} if len(params(f)) > 1 else {params(f)[0]: text}, helpers, {"SDMX_REXP_FORMATS": stand_in})
            except fin.Raised:
                got = None
            if got != want:
                bad = f"with the stand-in table {{F4: 4 digits, F7a/F7b: length 7, FANY: any length}}: {text!r} is detected as {got}, expected {want}"
                break
    except (fin.NotFinite, TypeError, AttributeError, KeyError) as ex:
        chk.undecided("C11-R1", "dates.Frequency.from_sdmx_string", f"not finitely evaluable: {type(ex).__name__}: {ex}", m.loc(f))
    else:
        chk.ob("C11-R1", "dates.Frequency.from_sdmx_string", bad is None, bad or f"first entry whose length and full pattern match ({len(cases)} strings on a stand-in table)",
               m.loc(f), sure=True)


def rule_r2(chk, m):
    chk.rule("C11-R2", "parsing the writer's own template with from_sdmx_string / from_iso_string hands the fields to the constructor "
             "in writer order; __repr__ is <name>(<args>) with <name> bound to a constructor of that class with matching arity; "
             "to_python_date/from_python_date go through (year, month, day)", floor=14)
    ctor_arity = {}
    for cname in CLASSES.values():
        # --- sdmx
        f, wre, marks = writer_regex(m, cname)
        c, g = resolve_method(m, cname, "from_sdmx_string")
        chk.saw(m, f"{cname}.from_sdmx_string")
        text = marks
        rec = []
        funcs = {"int": lambda s: s, "klass.from_year_segment": lambda *a: rec.append(("ys",) + a) or "OBJ",
                 "klass.from_ymd": lambda *a: rec.append(("ymd",) + a) or "OBJ", "klass": lambda *a: rec.append(("serial",) + a) or "OBJ"}
        try:
            run_str_function(g, {params(g)[0]: None, params(g)[1]: " " + text + " " if "strip" in unparse(g) else text}, funcs=funcs)
        except NotAString as e:
            chk.undecided("C11-R2", f"dates.{cname}.from_sdmx_string", str(e), m.loc(g))
            rec = None
        if rec is not None:
            want = {
                "YearlyPeriod": [("serial", "‹year›")],
                "HalfyearlyPeriod": [("ys", "‹year›", "‹per›")],
                "QuarterlyPeriod": [("ys", "‹year›", "‹per›")],
                "MonthlyPeriod": [("ys", "‹year›", "‹per›")],
                "DailyPeriod": [("ymd", "‹year›", "‹month›", "‹day›")],
                "IntegerPeriod": [("serial", "‹serial›")],
            }[cname]
            chk.ob("C11-R2", f"dates.{cname}.from_sdmx_string", rec == want,
                   f"writer emits {text!r}; parser calls {rec} (expected {want})", m.loc(g))
        # --- repr
        c, r = resolve_method(m, cname, "__repr__")
        chk.saw(m, f"{cname}.__repr__")
        rets = [n for n in walk_no_nested(r) if isinstance(n, ast.Return)]
        ok, detail = False, "repr is not an f-string"
        if c != "Period" and len(rets) == 1 and isinstance(rets[0].value, ast.JoinedStr):
            vals = rets[0].value.values
            name = vals[0].value.rstrip("(") if isinstance(vals[0], ast.Constant) else None
            field = next((v for v in vals if isinstance(v, ast.FormattedValue)), None)
            fsrc = unparse(field.value) if field is not None else ""
            n_args = {"self.to_year_segment()": 2, "self.to_ymd()": 3, "self.get_year()": 1, "self.serial": 1}.get(fsrc)
            target = _ctor_target(m, name)
            detail = f"repr = {name}(...{fsrc}...) with {n_args} value(s); {name} is bound to {target}"
            ok = target is not None and target[0] == cname and n_args is not None and target[1] <= n_args <= target[2]
        chk.ob("C11-R2", f"dates.{cname}.__repr__", ok, detail, m.loc(r))
    # --- iso
    f = m.func("Period.to_iso_string")
    chk.saw(m, "Period.to_iso_string")
    rets = [n for n in walk_no_nested(f) if isinstance(n, ast.Return)]
    iso = "".join(str(v.value) if isinstance(v, ast.Constant) else "‹" + unparse(v.value) + "›" for v in rets[0].value.values) \
        if len(rets) == 1 and isinstance(rets[0].value, ast.JoinedStr) else None
    chk.ob("C11-R2", "dates.Period.to_iso_string", iso == "‹year›-‹month›-‹day›" and "year,month,day=self.to_ymd(**kwargs)" in unparse(f).replace(" ", ""),
           f"writes {iso}", m.loc(f))
    for q in ("RegularPeriodMixin.from_iso_string", "DailyPeriod.from_iso_string"):
        g = m.func(q)
        chk.saw(m, q)
        rec = []
        try:
            run_str_function(g, {params(g)[0]: None, params(g)[1]: iso or ""},
                             funcs={"int": lambda s: s, "klass.from_ymd": lambda *a: rec.append(a) or "OBJ"})
            chk.ob("C11-R2", f"dates.{q}", rec == [("‹year›", "‹month›", "‹day›")], f"parser calls from_ymd{rec}", m.loc(g))
        except NotAString as e:
            chk.undecided("C11-R2", f"dates.{q}", str(e), m.loc(g))
    g = m.func("Period.from_iso_string")
    src = unparse(g).replace(" ", "")
    ok = "year,month,day=iso_string.split('-')" in src and "period_constructor(int(year),int(month),int(day))" in src \
        and "PERIOD_CLASS_FROM_FREQUENCY_RESOLUTION[frequency].from_ymd" in src
    chk.ob("C11-R2", "dates.Period.from_iso_string", ok, "splits on '-' and calls from_ymd(year, month, day) of the class of the frequency", m.loc(g))
    g = m.func("Period.to_python_date")
    ok = "_dt.date(*self.to_ymd(position=position))" in unparse(g)
    chk.ob("C11-R2", "dates.Period.to_python_date", ok, "date(*to_ymd(position))", m.loc(g))
    g = m.func("Period.from_python_date")
    src = unparse(g).replace(" ", "")
    ok = "(python_date.year,python_date.month,python_date.day)" in src and "period_constructor(int(year),int(month),int(day))" in src
    chk.ob("C11-R2", "dates.Period.from_python_date", ok, "from_ymd(date.year, date.month, date.day)", m.loc(g))
    # daily ymd <-> ordinal
    g = m.func("DailyPeriod.to_ymd")
    ok = "_dt.date.fromordinal(self.serial)" in unparse(g) and "(py_date.year, py_date.month, py_date.day)" in unparse(g)
    chk.ob("C11-R2", "dates.DailyPeriod.to_ymd", ok, "fromordinal(serial) -> (year, month, day)", m.loc(g))
    g = m.func("daily_serial_from_ymd")
    ok = unparse(strip_docstring(g.body)[0]).replace(" ", "") == "return_dt.date(year,month,day).toordinal()"
    chk.ob("C11-R2", "dates.daily_serial_from_ymd", ok, "date(year, month, day).toordinal()", m.loc(g))


def _ctor_target(m, name):
    """(class, min positional arity, max positional arity) of module-level constructor `name` (yy, qq, dd, ii ...)."""
    if name is None:
        return None
    if m.has(name):
        f = m.func(name)
        # dd(year, month, day) -> DailyPeriod
        calls = [dotted(n.func) for n in ast.walk(f) if isinstance(n, ast.Call) and dotted(n.func)]
        cls = next((c.split(".")[0] for c in calls if c.split(".")[0].endswith("Period")), None)
        ps = params(f)
        return (cls, len(ps) - len(f.args.defaults), len(ps))
    val = None
    for st in m.tree.body:
        if isinstance(st, ast.Assign) and any(isinstance(t, ast.Name) and t.id == name for t in st.targets) and val is None:
            val = st.value
    if isinstance(val, ast.Call) and dotted(val.func) == "_period_constructor_with_ellipsis" and val.args:
        tgt = dotted(val.args[0])
        if tgt.endswith(".from_year_segment"):
            cls = tgt.split(".")[0]
            c, f = resolve_method(m, cls, "from_year_segment")
            ps = params(f)[1:]
            return (cls, len(ps) - len(f.args.defaults), len(ps))
        cls = tgt
        f = m.func(f"Period.__init__")
        return (cls, 0, 1)
    return None


def rule_r3(chk, m):
    chk.rule("C11-R3", "refrequent == new_class.from_ymd(*self.to_ymd(position)); over the calendar tables, for every pair of regular "
             "frequencies, segment and position: the chosen date lies in the source segment, the target segment contains its month, "
             "conversion is monotone, and coarse->fine->coarse returns the coarse segment for every pair of positions", floor=18)
    for q in ("Period.refrequent", "refrequent"):
        f = m.func(q)
        chk.saw(m, q)
        src = unparse(f).replace(" ", "")
        recv = "self" if q.startswith("Period") else "period"
        ok = (f"year,month,day={recv}.to_ymd(*args,**kwargs)" in src and "new_class=PERIOD_CLASS_FROM_FREQUENCY_RESOLUTION[new_freq]" in src
              and "returnnew_class.from_ymd(year,month,day)" in src)
        chk.ob("C11-R3", f"dates.{q}", ok, "target.from_ymd(*source.to_ymd(position))", m.loc(f))
    try:
        tables = month_tables(m)
        from .c09 import to_ymd_by_evaluation
        to_ymd_by_evaluation(chk, "C11-R3", m, tables)
        seg = {c: {mo: month_to_segment(m, c, mo) for mo in range(1, 13)} for c in REGULAR}
    except fin.NotFinite as e:
        raise AnalysisError(f"cannot evaluate calendar tables: {e}")
    n_cases = 0
    for src_c, fs in REGULAR.items():
        for tgt_c, ft in REGULAR.items():
            bad = []
            prev = None
            for pos in ("start", "middle", "end"):
                last = 0
                for k in range(1, fs + 1):
                    month, day = tables[src_c][pos][k]
                    n_cases += 1
                    # date lies in the source segment
                    if seg[src_c][month] != k:
                        bad.append(("not in source", pos, k, month))
                    t = seg[tgt_c][month]
                    # monotone in k
                    if t < last:
                        bad.append(("not monotone", pos, k))
                    last = t
                    # containment: target segment's months include the month
                    wt = 12 // ft
                    if not ((t - 1) * wt + 1 <= month <= t * wt):
                        bad.append(("target does not contain", pos, k, month, t))
                    # same-frequency round trip (iso / python date / ymd): identity
                    if src_c == tgt_c and t != k:
                        bad.append(("same-frequency round trip", pos, k, t))
            # coarse -> fine -> coarse
            if fs <= ft:
                for K in range(1, fs + 1):
                    for p in ("start", "middle", "end"):
                        fine = seg[tgt_c][tables[src_c][p][K][0]]
                        for q2 in ("start", "middle", "end"):
                            if fine not in tables[tgt_c][q2]:
                                bad.append(("segment outside the table", tgt_c, fine))
                                continue
                            back = seg[src_c][tables[tgt_c][q2][fine][0]]
                            n_cases += 1
                            if back != K:
                                bad.append(("coarse-fine-coarse", K, p, q2, back))
            chk.ob("C11-R3", f"dates[{src_c}->{tgt_c}]", not bad,
                   "containment, monotonicity and round trip hold on all segments/positions" if not bad else f"{bad[:3]}", m.rel,
                   facts={"bad": bad[:5]})
    chk.extra["c11_table_cases"] = n_cases
    # daily target/source: DailyPeriod.from_ymd uses the date itself; regular.from_ymd(month of the day) contains the day
    f = m.func("DailyPeriod.from_ymd")
    chk.saw(m, "DailyPeriod.from_ymd")
    ok = "serial=daily_serial_from_ymd(year,month,day)" in unparse(f).replace(" ", "")
    chk.ob("C11-R3", "dates.DailyPeriod.from_ymd", ok, "serial is the ordinal of (year, month, day)", m.loc(f))


def rule_r4(chk, m):
    chk.rule("C11-R4", "PERIOD_CLASS_FROM_FREQUENCY_RESOLUTION[F] is a class whose `frequency` attribute is F; every frequency that "
             "has an SDMX detection pattern has a class", floor=6)
    tab = m.assign("PERIOD_CLASS_FROM_FREQUENCY_RESOLUTION")
    chk.saw(m, "PERIOD_CLASS_FROM_FREQUENCY_RESOLUTION")
    have = {}
    for k, v in zip(tab.keys, tab.values):
        fname = dotted(k).split(".")[-1]
        cname = dotted(v)
        have[fname] = cname
        if fname == "UNKNOWN":
            continue
        fa = m.class_attr(cname, "frequency", required=False)
        got = dotted(fa).split(".")[-1] if fa is not None and dotted(fa) else None
        chk.ob("C11-R4", f"dates.PERIOD_CLASS_FROM_FREQUENCY_RESOLUTION[{fname}]", got == fname,
               f"{fname} -> {cname} whose frequency is {got}", m.loc(v))
    det = m.assign("SDMX_REXP_FORMATS")
    consts = fin.module_constants(m, {f"Frequency.{k_}": k_ for k_ in _freq_values(m)}, {"_re.compile": lambda p_, *a, **k_: ("re", p_)})
    if not isinstance(consts.get("SDMX_REXP_FORMATS"), dict):
        raise AnalysisError("SDMX_REXP_FORMATS is not a table built from constants")
    for fname in map(str, consts["SDMX_REXP_FORMATS"]):
        k = det
        if fname == "WEEKLY":
            chk.note("SDMX_REXP_FORMATS has a WEEKLY pattern but there is no weekly period class (no writer; detection of a "
                     "weekly string ends in a KeyError, i.e. is rejected)")
            continue
        chk.ob("C11-R4", f"dates.SDMX_REXP_FORMATS[{fname}] has class", fname in have, f"class for {fname}: {have.get(fname)}", m.loc(k))
    f = m.func("Period.from_sdmx_string")
    src = unparse(f).replace(" ", "")
    ok = "frequency=Frequency.from_sdmx_string(sdmx_string)iffrequencyisNoneelsefrequency" in src and \
        "returnPERIOD_CLASS_FROM_FREQUENCY_RESOLUTION[frequency].from_sdmx_string(sdmx_string)" in src
    chk.ob("C11-R4", "dates.Period.from_sdmx_string", ok, "auto-detects the frequency then dispatches to the class parser", m.loc(f))


def rule_r5(chk, m, rid="C11-R5"):
    chk.rule(rid, "every reader of SDMX strings returns the period the string names, and does so too when the string is surrounded by blanks (all "
             "readers agree on that: the regular ones strip, the daily one through int()): each <Class>.from_sdmx_string evaluated finitely on "
             "concrete strings of its writer's language, bare and padded; the constructor call it makes names the same period", floor=6, shape_independent=True)
    import datetime
    samples = {
        "YearlyPeriod": [("2020", ("serial", 2020)), ("0987", ("serial", 987))],
        "HalfyearlyPeriod": [("2020-H2", ("ys", 2020, 2)), ("1999-H1", ("ys", 1999, 1))],
        "QuarterlyPeriod": [("2020-Q3", ("ys", 2020, 3)), ("1999-Q4", ("ys", 1999, 4))],
        "MonthlyPeriod": [("2020-07", ("ys", 2020, 7)), ("1999-12", ("ys", 1999, 12)), ("2001-10", ("ys", 2001, 10))],
        "DailyPeriod": [("2020-07-15", ("ymd", 2020, 7, 15)), ("2000-02-29", ("ymd", 2000, 2, 29)), ("2021-12-10", ("ymd", 2021, 12, 10)), ("2021-01-20", ("ymd", 2021, 1, 20))],
        "IntegerPeriod": [("(5)", ("serial", 5)), ("(-3)", ("serial", -3)), ("(120)", ("serial", 120))],
    }

    def same(a, b):
        def norm(x):
            if x and x[0] == "ymd":
                return ("serial", datetime.date(*x[1:]).toordinal())
            return x
        return a == b or (a and b and {a[0], b[0]} == {"ymd", "serial"} and norm(a) == norm(b))
    for cname in CLASSES.values():
        _, wre, _ = writer_regex(m, cname)
        c, g = resolve_method(m, cname, "from_sdmx_string")
        chk.saw(m, f"{c}.from_sdmx_string")
        wd = rx.compile_regex(wre)
        bad = None
        n = 0
        for text, want in samples[cname]:
            if not wd.accepts(text):
                continue          # not in the writer's language any more: nothing to demand
            for padded in (text, " " + text, text + " ", "  " + text + "  "):
                rec = []

                class _K(fin.FinObj):
                    def __call__(self, *a):
                        rec.append(("serial",) + a)
                        return "OBJ"
                k = _K(from_year_segment=lambda *a: rec.append(("ys",) + a) or "OBJ", from_ymd=lambda *a: rec.append(("ymd",) + a) or "OBJ")
                funcs = dict(fin.CALENDAR_FUNCS)
                funcs["_dt.date.fromisoformat"] = datetime.date.fromisoformat
                funcs[params(g)[0]] = k
                try:
                    fin.run_function(g, {params(g)[0]: k, params(g)[1]: padded}, funcs)
                    got = rec[-1] if rec else None
                    why = f"calls {rec}" if rec else "makes no constructor call"
                except fin.NotFinite as ex:
                    bad = None
                    n = -1
                    note = f"not finitely evaluable on {padded!r}: {ex}"
                    break
                except (fin.Raised, ValueError, TypeError, IndexError) as ex:
                    got, why = None, f"raises {type(ex).__name__}: {ex}"
                n += 1
                if not same(got, want):
                    bad = f"from_sdmx_string({padded!r}) {why}; expected the period {want}" + (" - the bare string is read correctly, the blank-padded one is not "
                          "(every other reader tolerates surrounding blanks)" if padded != text else "")
                    break
            if bad or n < 0:
                break
        if n < 0:
            chk.undecided(rid, f"dates.{cname}.from_sdmx_string[concrete strings]", note, m.loc(g))
        elif n == 0:
            chk.undecided(rid, f"dates.{cname}.from_sdmx_string[concrete strings]", "no sample string lies in the writer's language", m.loc(g))
        else:
            chk.ob(rid, f"dates.{cname}.from_sdmx_string[concrete strings]", bad is None, bad or f"{n} bare and blank-padded strings of the writer's language name the right period",
                   m.loc(g), sure=True)


def run(chk):
    m = chk.repo.mod(MOD)
    chk.guard(rule_r5, chk, m)
    chk.guard(rule_r1, chk, m)
    chk.guard(rule_r2, chk, m)
    chk.guard(rule_r3, chk, m)
    chk.guard(rule_r4, chk, m)
    from .. import unused as _unused
    chk.guard(_unused.apply, chk, "C11-R91")
    from .. import args as _args
    chk.guard(_args.apply, chk, "C11-R90", {'dates'}, 1)
    chk.assumptions = [
        "years 0..9999 (four-digit SDMX years); segments within 1..f (C09-R3)",
        "third-party date strings are outside the clause; only strings the library itself writes",
        "calendar containment of days within months relies on datetime (C09-R5)",
    ]

"""
C14 — trend filters: trend plus gap is the data (thin claim).

  R1  hpf: along every path of _ConstrainedHodrickPrescottFilter.filter_data, trend + gap == data on the data rows
      (trend * gap == data under log=True); missing cells are zeroed for the solve and restored before the gap;
      lonf: trend := data - gap
  R2  _data_hpf clips trend and gap with the same slice [min(span)-base : max(span)-base+1] and keeps the
      (trend, gap) order from filter_data to the public results
"""
from __future__ import annotations

import ast

from .. import alg
from ..alg import Undecided, sym, num, add, sub, mul
from ..core import AnalysisError, dotted, unparse, params, walk_no_nested, strip_docstring
from ..symexec import Interp, Tup, Opaque, is_ir

HMOD = "irispie.series._hp"
LMOD = "irispie.series._ell_one"


def _slice_syms(e, key):
    """slicing commutes with element-wise arithmetic: push it to the leaves"""
    t = e[0]
    if t == "num":
        return e
    if t == "sym":
        return sym(f"{e[1]}|{key}")
    if t == "app":
        return ("app", e[1], tuple(_slice_syms(a, key) for a in e[2]))
    return (t,) + tuple(_slice_syms(a, key) for a in e[1:])


class FilterInterp(Interp):
    IDENTITY_METHODS = ("reshape", "flatten", "copy", "tolist", "astype")

    def __init__(self):
        super().__init__()
        self.events = []

    def correlate(self, test_node):
        return all(isinstance(n, (ast.Attribute, ast.Name, ast.Compare, ast.Constant, ast.Gt, ast.Load)) for n in ast.walk(test_node)) \
            and any(dotted(n) and dotted(n).startswith("self._") for n in ast.walk(test_node))

    def call(self, node, env, name):
        if name in ("_np.linalg.solve", "np.linalg.solve"):
            self.events.append(("solve", node.lineno))
            return sym("TREND")
        if name == "self._extend_data":
            return sym("DATA")          # first rows are the data (stacked constraint rows are cut off again)
        if name in ("_np.where", "_np.isnan", "self._add_eye_for_observations"):
            return Opaque(name)
        if name in ("tuple",) and len(node.args) == 1:
            return self.ev(node.args[0], env)
        if isinstance(node.func, ast.Attribute) and node.func.attr in self.IDENTITY_METHODS:
            return self.ev(node.func.value, env)
        if name == "solve":
            return Tup((sym("X"),))
        return NotImplemented

    def attr(self, base, attrname, node, env):
        if attrname == "T" and is_ir(base):
            return alg.app("transpose", base)
        return NotImplemented

    def ev(self, node, env):
        if isinstance(node, ast.Subscript) and isinstance(node.value, ast.Name):
            base = env.get(node.value.id)
            if is_ir(base):
                key = unparse(node.slice).replace(" ", "")
                return _slice_syms(base, key)
        return super().ev(node, env)

    def assign(self, target, val, env, st):
        # X[idx] = constant : cell overwrite used to zero / restore missing observations
        if isinstance(target, ast.Subscript) and isinstance(target.value, ast.Name) and is_ir(env.get(target.value.id)):
            self.events.append(("store", target.value.id, unparse(target.slice), unparse(st.value), st.lineno))
            return
        super().assign(target, val, env, st)

    def attr_store(self, target, val, env, st):
        pass


def rule_r1(chk):
    chk.rule("C14-R1", "symbolic interpretation of filter_data on every path: trend + gap == data rows (trend*gap == data when the log "
             "flag is set), both cut by the same extra-row slice; missing cells are set to 0 before the solve and back to NaN before the "
             "gap is formed; lonf: trend + gap == data", floor=4)
    m = chk.repo.mod(HMOD)
    f = m.func("_ConstrainedHodrickPrescottFilter.filter_data")
    chk.saw(m, "_ConstrainedHodrickPrescottFilter.filter_data")
    it = FilterInterp()
    try:
        outs = it.run(f.body, {params(f)[1]: sym("RAW")})
    except Undecided as e:
        chk.undecided("C14-R1", "series._hp.filter_data", f"cannot interpret: {e}", m.loc(f))
        outs = []
    n_paths = 0
    for env, r in outs:
        if not (isinstance(r, Tup) and len(r.items) == 2 and all(is_ir(x) for x in r.items)):
            chk.undecided("C14-R1", "series._hp.filter_data", f"return is not a (trend, gap) pair: {r!r}"[:160], m.loc(f))
            continue
        n_paths += 1
        trend, gap = r.items
        log = env.get(("__decision__", "self._log"))
        cut = env.get(("__decision__", "self._num_extra_rows > 0"))
        label = f"[log={log}, extra rows={cut}]"
        # which symbol stands for the data rows on this path
        data_syms = sorted(s for s in alg.symbols(add(trend, gap)) if s.startswith("DATA"))
        try:
            if len(data_syms) != 1:
                raise Undecided(f"data symbol ambiguous: {data_syms}")
            D = sym(data_syms[0])
            combined = mul(trend, gap) if log else add(trend, gap)
            ok = alg.equal(combined, D)
            chk.ob("C14-R1", f"series._hp._ConstrainedHodrickPrescottFilter.filter_data{label}", ok,
                   f"trend={alg.show_rat(alg.nf(trend))}; gap={alg.show_rat(alg.nf(gap))}; {'trend*gap' if log else 'trend+gap'} = "
                   f"{alg.show_rat(alg.nf(combined))} (must be {data_syms[0]})", m.loc(f))
        except Undecided as e:
            chk.undecided("C14-R1", f"series._hp._ConstrainedHodrickPrescottFilter.filter_data{label}", str(e), m.loc(f))
    if n_paths < 2:
        raise AnalysisError(f"anchor vanished: filter_data paths interpreted = {n_paths}")
    # zero before solve, NaN restored after solve and before gap
    stores = [e for e in it.events if e[0] == "store" and e[1] == "extended_data"]
    solves = [e for e in it.events if e[0] == "solve"]
    gap_line = next((n.lineno for n in walk_no_nested(f) if isinstance(n, ast.Assign) and unparse(n.targets[0]) == "gap_data"
                     and "extended_data" in unparse(n.value)), None)
    ok = False
    if solves and gap_line:
        sl = solves[0][1]
        zero = [e for e in stores if e[3] == "0" and e[4] < sl]
        nan = [e for e in stores if e[3].endswith("nan") and sl < e[4] < gap_line]
        ok = bool(zero) and bool(nan) and zero[0][2] == nan[0][2]
    chk.ob("C14-R1", "series._hp.filter_data[missing cells]", ok,
           "missing observations are zeroed for the solve and restored to NaN (same index) before gap = data - trend", m.loc(f))
    # lonf
    lm = chk.repo.mod(LMOD)
    g = lm.func("_lonf_for_variant")
    chk.saw(lm, "_lonf_for_variant")
    it2 = FilterInterp()
    try:
        outs = it2.run(g.body, {params(g)[1]: sym("DATA"), params(g)[2]: sym("Dm"), "x": sym("X")})
        (env, r), = outs
        if isinstance(r, Tup) and len(r.items) == 2 and all(is_ir(v) for v in r.items):
            trend, gap = r.items
            tot = add(trend, gap)
            chk.ob("C14-R1", "series._ell_one._lonf_for_variant", alg.equal(tot, sym("DATA")),
                   f"trend+gap = {alg.show_rat(alg.nf(tot))} (must be DATA)", lm.loc(g))
        else:
            chk.undecided("C14-R1", "series._ell_one._lonf_for_variant", f"return {r!r}"[:120], lm.loc(g))
    except (Undecided, ValueError) as e:
        chk.undecided("C14-R1", "series._ell_one._lonf_for_variant", str(e), lm.loc(g))
    h = lm.func("lonf")
    chk.saw(lm, "lonf")
    facts = _lonf_facts(h)
    if facts is None:
        chk.undecided("C14-R1", "series._ell_one.lonf[order kept]", "shape of the variant loop / constructors not recognised", lm.loc(h))
    else:
        ok = facts["first_list_gets"] == facts["unpack"][0] and facts["second_list_gets"] == facts["unpack"][1] and facts["same_start"] \
            and facts["solver_returns"] == ("trend_data", "gap_data") and facts["unpack"] == ("trend_data", "gap_data")
        chk.ob("C14-R1", "series._ell_one.lonf[order kept]", ok,
               f"variant solver returns {facts['solver_returns']}, unpacked as {facts['unpack']}, accumulated into the lists behind the "
               f"(first, second) returned series: ({facts['first_list_gets']}, {facts['second_list_gets']}); common start: {facts['same_start']}", lm.loc(h))
        # the results are dated from the first period of the window the data were taken from
        from ..core import inline_locals
        win = [c for c in ast.walk(h) if isinstance(c, ast.Call) and isinstance(c.func, ast.Attribute) and c.func.attr.startswith("iter_own_data_variants") and c.args]
        ok_, det_ = None, "data window / constructor start not recognised"
        if len(win) == 1:
            w0 = inline_locals(h, win[0].args[0])
            first = unparse(w0.elts[0]) if isinstance(w0, ast.Tuple) and w0.elts else None
            starts = set()
            for _, call_, _ in facts["ctors"]:
                kw_ = {k.arg: k.value for k in call_.keywords}
                sv = kw_.get("start") or kw_.get("start_date")
                starts.add(unparse(inline_locals(h, sv)) if sv is not None else None)
            if first is not None and None not in starts:
                ok_ = starts == {first}
                det_ = f"data taken from {first} on; trend and gap dated from {sorted(starts)}" + ("" if ok_ else ": the numbers are right but land on the wrong periods "
                                                                                                "whenever the span starts after the first observation")
        chk.ob("C14-R1", "series._ell_one.lonf[dated from the window start]", ok_, det_, lm.loc(h), sure=ok_ is not None)
        # every variant is kept: the list route of the Series constructor keeps only num_variants items
        sm = chk.repo.mod("irispie.series.main")
        fsv = sm.func("_from_start_and_values")
        truncates = any(isinstance(n, ast.Call) and dotted(n.func) == "zip" and any("range(self.num_variants)" in unparse(a_).replace(" ", "") for a_ in n.args)
                        for n in ast.walk(fsv))
        for which, call, lst in facts["ctors"]:
            kw = {k.arg: k.value for k in call.keywords}
            nv = kw.get("num_variants")
            nv_src = assign_value_(h, nv.id) if isinstance(nv, ast.Name) else nv
            lists = {c[2] for c in facts["ctors"]}
            good = nv_src is not None and (unparse(nv_src).replace(" ", "") in {f"len({l})" for l in lists} | {"input_series.num_variants"})
            ok = True if not truncates else (good if nv is not None else False)
            chk.ob("C14-R1", f"series._ell_one.lonf[all variants kept: {which}]", ok,
                   ("Series(values=<list of variants>) keeps only num_variants items (default 1); " if truncates else "") +
                   (f"num_variants={unparse(nv_src) if nv_src is not None else None}" if nv is not None else "no num_variants passed: every variant but the first is dropped"),
                   lm.loc(call))


def assign_value_(f, name):
    vals = [n.value for n in walk_no_nested(f) if isinstance(n, ast.Assign) and len(n.targets) == 1 and isinstance(n.targets[0], ast.Name) and n.targets[0].id == name]
    return vals[-1] if vals else None


def _lonf_facts(h):
    """structure of lonf: (a, b) = _lonf_for_variant(..); LA.append(a); LB.append(b); S1 = Series(.., values=LA); S2 = ...; return S1, S2"""
    unpack = None
    appends = {}
    for n in ast.walk(h):
        if isinstance(n, ast.Assign) and isinstance(n.targets[0], ast.Tuple) and isinstance(n.value, ast.Call) and dotted(n.value.func) == "_lonf_for_variant":
            unpack = tuple(e.id for e in n.targets[0].elts if isinstance(e, ast.Name))
        if isinstance(n, ast.Call) and isinstance(n.func, ast.Attribute) and n.func.attr == "append" and isinstance(n.func.value, ast.Name) and n.args \
                and isinstance(n.args[0], ast.Name):
            appends[n.func.value.id] = n.args[0].id
    rets = [n for n in walk_no_nested(h) if isinstance(n, ast.Return)]
    if unpack is None or len(unpack) != 2 or len(rets) != 1 or not isinstance(rets[0].value, ast.Tuple) or len(rets[0].value.elts) != 2:
        return None
    ctors = []
    for which, e in zip(("trend", "gap"), rets[0].value.elts):
        v = assign_value_(h, e.id) if isinstance(e, ast.Name) else e
        if not isinstance(v, ast.Call):
            return None
        kw = {k.arg: k.value for k in v.keywords}
        if "values" not in kw or not isinstance(kw["values"], ast.Name):
            return None
        ctors.append((which, v, kw["values"].id))
    starts = {unparse({k.arg: k.value for k in c.keywords}.get("start") or {k.arg: k.value for k in c.keywords}.get("start_date") or ast.Constant(None)) for _, c, _ in ctors}
    return {"unpack": unpack, "first_list_gets": appends.get(ctors[0][2]), "second_list_gets": appends.get(ctors[1][2]), "same_start": len(starts) == 1,
            "ctors": ctors, "solver_returns": _solver_returns(h)}


_SOLVER_RETURNS = {}


def _solver_returns(h):
    mod = h
    while getattr(mod, "_parent", None) is not None:
        mod = mod._parent
    for n in ast.walk(mod):
        if isinstance(n, ast.FunctionDef) and n.name == "_lonf_for_variant":
            rets = [r for r in walk_no_nested(n) if isinstance(r, ast.Return)]
            if len(rets) == 1 and isinstance(rets[0].value, ast.Tuple):
                return tuple(unparse(e) for e in rets[0].value.elts)
    return None


def rule_r2(chk):
    chk.rule("C14-R2", "_data_hpf applies identical subscripts to trend and gap in each branch; clip = [min(span)-base, max(span)-base+1); "
             "(trend, gap) positions agree between filter_data, _data_hpf, hpf, hpf_trend and hpf_gap", floor=6)
    m = chk.repo.mod(HMOD)
    f = m.func("_data_hpf")
    chk.saw(m, "_data_hpf")
    subs = {"trend_data": [], "gap_data": []}
    for n in walk_no_nested(f):
        if isinstance(n, ast.Assign) and isinstance(n.targets[0], ast.Name) and n.targets[0].id in subs and isinstance(n.value, ast.Subscript) \
                and unparse(n.value.value) == n.targets[0].id:
            subs[n.targets[0].id].append(unparse(n.value.slice).replace(" ", ""))
    ok = subs["trend_data"] == subs["gap_data"] and len(subs["trend_data"]) >= 1
    chk.ob("C14-R2", "series._hp._data_hpf[same clip]", ok, f"trend slices {subs['trend_data']}; gap slices {subs['gap_data']}", m.loc(f))
    env = {n.targets[0].id: n.value for n in walk_no_nested(f) if isinstance(n, ast.Assign) and isinstance(n.targets[0], ast.Name)}
    try:
        conv = alg.ToIR(subscript=lambda n, c: sym("BASE") if unparse(n) == "from_until[0]" else None)
        ok1 = alg.equal(conv(env["clip_start"]), sub(sym("new_start_date"), sym("BASE")))
        ok2 = alg.equal(conv(env["clip_end"]), add(sub(sym("new_end_date"), sym("BASE")), num(1)))
        ok3 = unparse(env["new_start_date"].body if isinstance(env["new_start_date"], ast.IfExp) else env["new_start_date"]) in ("min(span)",) or "min(span)" in [unparse(n.value) for n in walk_no_nested(f) if isinstance(n, ast.Assign) and unparse(n.targets[0]) == "new_start_date"]
        ok4 = "max(span)" in [unparse(n.value) for n in walk_no_nested(f) if isinstance(n, ast.Assign) and unparse(n.targets[0]) == "new_end_date"]
        chk.ob("C14-R2", "series._hp._data_hpf[clip arithmetic]", ok1 and ok2 and ok3 and ok4,
               f"clip_start={unparse(env['clip_start'])}; clip_end={unparse(env['clip_end'])} (end-inclusive)", m.loc(f))
    except (Undecided, KeyError) as e:
        chk.undecided("C14-R2", "series._hp._data_hpf[clip arithmetic]", str(e), m.loc(f))
    src = unparse(f).replace(" ", "")
    ok = ("trend_data_variant,gap_data_variant=hp.filter_data(" in src and "trend_data.append(trend_data_variant)" in src
          and "gap_data.append(gap_data_variant)" in src and "return(new_start_date,trend_data,gap_data)" in src)
    chk.ob("C14-R2", "series._hp._data_hpf[order]", ok, "unpacks (trend, gap) from filter_data and returns (start, trend, gap)", m.loc(f))
    fd = m.func("_ConstrainedHodrickPrescottFilter.filter_data")
    rets = [n for n in walk_no_nested(fd) if isinstance(n, ast.Return)]
    ok = len(rets) == 1 and unparse(rets[0].value).replace(" ", "") == "(trend_data,gap_data)"
    chk.ob("C14-R2", "series._hp.filter_data[return order]", ok, "returns (trend_data, gap_data)", m.loc(fd))
    # hpf / hpf_trend / hpf_gap by finite evaluation with a stand-in _data_hpf that returns labelled components
    from .. import fin
    consts = fin.module_constants(m)
    stub = {"_data_hpf": lambda s_, *a_, **k_: ("START", "TREND", "GAP")}
    helpers = fin.module_funcs(m, dict(stub, type=lambda o: (lambda *a_, **kw: ("series", kw.get("start_date", a_[0] if a_ else None), kw.get("values", a_[1] if len(a_) > 1 else None)))), consts)
    helpers.update(stub)
    h = m.func("hpf")
    chk.saw(m, "hpf")
    try:
        got = fin.run_function(h, {params(h)[0]: "SELF", (h.args.vararg.arg if h.args.vararg else "args"): (), (h.args.kwarg.arg if h.args.kwarg else "kwargs"): {}}, helpers, consts)
        want = (("series", "START", "TREND"), ("series", "START", "GAP"))
        chk.ob("C14-R2", "series._hp.hpf", tuple(got) == want, "(trend, gap) built from the matching arrays with one start" if tuple(got) == want else
               f"returns {got}; expected (trend, gap) = {want}", m.loc(h), sure=True)
    except (fin.NotFinite, fin.Raised, TypeError, AttributeError, IndexError) as ex:
        chk.undecided("C14-R2", "series._hp.hpf", f"not finitely evaluable: {type(ex).__name__}: {ex}", m.loc(h))
    for q, label, pos in (("Inlay.hpf_trend", "TREND", 1), ("Inlay.hpf_gap", "GAP", 2)):
        t = m.func(q)
        chk.saw(m, q)
        log = []
        me = fin.FinObj(_replace_start_and_values=lambda *a_, **k_: log.append(a_ + tuple(k_.values())), _replace_data=lambda *a_, **k_: log.append(("keeps its own start",) + a_))
        try:
            fin.run_function(t, {params(t)[0]: me, (t.args.vararg.arg if t.args.vararg else "args"): (), (t.args.kwarg.arg if t.args.kwarg else "kwargs"): {}}, helpers, consts)
            ok = log == [("START", label)]
            chk.ob("C14-R2", f"series._hp.{q}", ok, f"takes position {pos} ({label.lower()})" if ok else
                   f"replaces the series by {log}; expected start and values ('START', '{label}') of _data_hpf", m.loc(t), sure=True)
        except (fin.NotFinite, fin.Raised, TypeError, AttributeError, IndexError) as ex:
            chk.undecided("C14-R2", f"series._hp.{q}", f"not finitely evaluable: {type(ex).__name__}: {ex}", m.loc(t))


def rule_r3(chk):
    from .. import effects
    chk.rule("C14-R3", "variants are filtered independently: the filter object built once in _data_hpf is applied to every variant in a "
             "loop, so filter_data (and every method it calls on self) leaves the object's state untouched: no rebinding, cell "
             "store, in-place operator or in-place ndarray method on self.<attr> or on an uncopied alias of it", floor=2, shape_independent=True)
    n_ex = effects.self_check()
    m = chk.repo.mod(HMOD)
    d = m.func("_data_hpf")
    chk.saw(m, "_data_hpf")
    # the object is created outside the loop over variants and used inside it
    created = [n for n in walk_no_nested(d) if isinstance(n, ast.Assign) and isinstance(n.value, ast.Call)
               and dotted(n.value.func) == "_ConstrainedHodrickPrescottFilter" and isinstance(n.targets[0], ast.Name)]
    loops = [n for n in walk_no_nested(d) if isinstance(n, ast.For)]
    reused = []
    for c in created:
        nm = c.targets[0].id
        for lp in loops:
            inside_create = any(x is c for x in ast.walk(lp))
            uses = [x for x in ast.walk(lp) if isinstance(x, ast.Call) and isinstance(x.func, ast.Attribute) and isinstance(x.func.value, ast.Name) and x.func.value.id == nm]
            if uses and not inside_create:
                reused += [(nm, u.func.attr) for u in uses]
    meths = m.methods("_ConstrainedHodrickPrescottFilter")
    if not created:
        chk.undecided("C14-R3", "series._hp._data_hpf[filter object]", "construction of the filter object not recognised", m.loc(d))
        return
    if not reused:
        chk.ok("C14-R3", "series._hp._data_hpf[filter object]", "a fresh filter object is built per variant; nothing is shared", m.loc(d))
        return
    chk.ok("C14-R3", "series._hp._data_hpf[filter object]", f"one object, called per variant: {sorted(set(reused))}; effect rule self-check on {n_ex} examples", m.loc(d))
    for nm, entry in sorted(set(reused)):
        muts, seen = effects.self_mutations(meths, entry)
        for q in seen:
            chk.saw(m, f"_ConstrainedHodrickPrescottFilter.{q}")
        if muts:
            chain, a, how, line = muts[0]
            chk.bad("C14-R3", f"series._hp._ConstrainedHodrickPrescottFilter.{entry}[pure]",
                    f"{'.'.join(chain)} changes self.{a} ({how}, line {line}); the next variant is filtered with the altered object", f"{m.rel}:{line}")
        else:
            chk.ok("C14-R3", f"series._hp._ConstrainedHodrickPrescottFilter.{entry}[pure]", f"no write to self state in {seen}", m.loc(meths[entry]))


def rule_r4(chk):
    from .. import fin
    chk.rule("C14-R4", "the HP system is the first-order condition of the documented problem: finite evaluation (checker's exact matrix model, "
             "T = 5 and 6, lambda = 7) of the construction methods gives F = lambda * K'K with K the second-difference matrix "
             "(rows (1, -2, 1)); level constraints at periods j border F with unit rows e_j, their transposes as columns and a zero "
             "corner; change constraints border it with e_j - e_(j-1); the number of extra rows is counted exactly", floor=6)
    m = chk.repo.mod(HMOD)
    meths = m.methods("_ConstrainedHodrickPrescottFilter")
    for q in ("_create_plain_filter_matrix", "_add_level_constraints", "_add_change_constraints"):
        if q not in meths:
            raise AnalysisError(f"anchor vanished: _ConstrainedHodrickPrescottFilter.{q}")
        chk.saw(m, f"_ConstrainedHodrickPrescottFilter.{q}")
    M = fin.FinMat
    for T in (5, 6):
        lam = 7
        try:
            base = {"self": "SELF", "self._num_periods": T, "self._smooth": lam, "self._num_extra_rows": 0, "float": float, "int": int}
            out = {}
            fin.run_function(meths["_create_plain_filter_matrix"], {}, funcs=dict(fin.MATRIX_FUNCS), env=base, final_env=out, methods=meths)
            F = out.get("self._F")
            K = M([[1 if j == i or j == i + 2 else -2 if j == i + 1 else 0 for j in range(T)] for i in range(T - 2)])
            want = lam * (K.T @ K)
            chk.ob("C14-R4", f"series._hp._ConstrainedHodrickPrescottFilter._create_plain_filter_matrix[T={T}]", isinstance(F, M) and F == want,
                   "F = lambda * K'K, K = second differences" if isinstance(F, M) and F == want else f"F = {F} (want {want})", m.loc(meths["_create_plain_filter_matrix"]), sure=True)
            if not isinstance(F, M):
                continue
            # level constraints at two periods
            where = [1, T - 2]
            env = dict(base); env["self._F"] = M(F.rows)
            out2 = {}
            fin.run_function(meths["_add_level_constraints"], {params(meths["_add_level_constraints"])[1]: where}, funcs=dict(fin.MATRIX_FUNCS), env=env, final_env=out2, methods=meths)
            F2 = out2["self._F"]
            C = M([[1 if j == w else 0 for j in range(T)] for w in where])
            Z = M.zeros((len(where), len(where)))
            want2 = fin._vstack([fin._hstack([F, C.T]), fin._hstack([C, Z])])
            ok = F2 == want2 and out2.get("self._num_extra_rows") == len(where)
            chk.ob("C14-R4", f"series._hp._ConstrainedHodrickPrescottFilter._add_level_constraints[T={T}]", ok,
                   f"levels fixed at periods {where}: F is bordered by the unit rows of those periods, their transposes and a zero corner; {len(where)} extra rows counted"
                   if ok else f"bordered matrix rows {F2.rows[T:]} / extra rows counted {out2.get('self._num_extra_rows')} (want rows {C.rows} and {len(where)})",
                   m.loc(meths["_add_level_constraints"]), sure=True)
            # change constraints on top of the level constraints
            cw = [2, T - 1]
            env = dict(base); env["self._F"] = M(F2.rows); env["self._num_extra_rows"] = len(where)
            out3 = {}
            fin.run_function(meths["_add_change_constraints"], {params(meths["_add_change_constraints"])[1]: cw}, funcs=dict(fin.MATRIX_FUNCS), env=env, final_env=out3, methods=meths)
            F3 = out3["self._F"]
            n2 = T + len(where)
            D = M([[1 if j == w else -1 if j == w - 1 else 0 for j in range(n2)] for w in cw])
            want3 = fin._vstack([fin._hstack([F2, D.T]), fin._hstack([D, M.zeros((len(cw), len(cw)))])])
            ok = F3 == want3 and out3.get("self._num_extra_rows") == len(where) + len(cw)
            chk.ob("C14-R4", f"series._hp._ConstrainedHodrickPrescottFilter._add_change_constraints[T={T}]", ok,
                   f"changes fixed at periods {cw}: F is bordered by e_j - e_(j-1), symmetric, zero corner; extra rows counted {out3.get('self._num_extra_rows')}"
                   if ok else f"bordered rows {F3.rows[n2:]} / extra rows {out3.get('self._num_extra_rows')} (want {D.rows} and {len(where) + len(cw)})",
                   m.loc(meths["_add_change_constraints"]), sure=True)
        except (fin.NotFinite, KeyError, TypeError, IndexError) as ex:
            chk.undecided("C14-R4", f"series._hp._ConstrainedHodrickPrescottFilter[system matrix T={T}]", f"construction not evaluable: {type(ex).__name__}: {ex}", m.rel)


def rule_r5(chk, rid="C14-R5"):
    chk.rule(rid, "the filter range encompasses the data, the constraints and the requested span whatever order their periods come in: "
             "dates.get_encompassing_span returns the earliest start and the latest end over series-like arguments (start_date / end_date), "
             "plain tuples of periods (forward, backward, unsorted, with None entries) and None arguments - evaluated finitely", floor=1, shape_independent=True)
    from .. import fin
    m = chk.repo.mod("irispie.dates")
    f = m.func("get_encompassing_span")
    g = m.func("_get_period") if m.has("_get_period") else None
    chk.saw(m, "get_encompassing_span")
    funcs = {"Span": lambda a, b, *c: ("span", a, b)}
    if g is not None:
        chk.saw(m, "_get_period")
        funcs["_get_period"] = lambda *a: fin.run_function(g, dict(zip(params(g), a)), funcs)
    ser = lambda a, b: fin.FinObj(start_date=a, end_date=b)
    cases = (
        ("series and forward tuple", (ser(10, 20), (15, 16, 25)), (10, 25)),
        ("backward tuple beyond the data", (ser(10, 20), (30, 29, 28, 5)), (5, 30)),
        ("unsorted tuple", (ser(10, 20), None, (12, 40, 3, 18)), (3, 40)),
        ("tuple with None entries", (ser(10, 20), (None, 22, None, 8)), (8, 22)),
        ("empty series", (ser(None, None), (7, 9)), (7, 9)),
        ("two series", (ser(10, 20), ser(5, 12), None), (5, 20)),
    )
    bad = None
    n = 0
    try:
        for label, args, (ws, we) in cases:
            got = fin.run_function(f, {f.args.vararg.arg: args} if f.args.vararg else dict(zip(params(f), args)), funcs)
            n += 1
            got = tuple(got)
            if got[1:] != (ws, we) or got[0] != ("span", ws, we):
                bad = f"{label}: get_encompassing_span{tuple('series(%s..%s)' % (a.start_date, a.end_date) if isinstance(a, fin.FinObj) else a for a in args)} " \
                      f"gives {got[1]}..{got[2]}, but the periods run from {ws} to {we}: the filter range does not cover the request"
                break
    except (fin.NotFinite, fin.Raised, TypeError, ValueError, IndexError) as ex:
        chk.undecided(rid, "dates.get_encompassing_span", f"not finitely evaluable: {type(ex).__name__}: {ex}", m.loc(f))
    else:
        chk.ob(rid, "dates.get_encompassing_span", bad is None, bad or f"{n} argument mixes: earliest start and latest end, independent of the order of the periods", m.loc(f), sure=True)


def run(chk):
    chk.guard(rule_r5, chk)
    chk.guard(rule_r1, chk)
    chk.guard(rule_r2, chk)
    chk.guard(rule_r3, chk)
    chk.guard(rule_r4, chk)
    from .. import unused as _unused
    chk.guard(_unused.apply, chk, "C14-R91")
    from .. import args as _args
    chk.guard(_args.apply, chk, "C14-R90", {'series'}, 1)
    chk.assumptions = [
        "slicing and element-wise exp/log commute (numpy semantics)",
        "optimality of the trend, exact constraint satisfaction, bridging of missing observations and the l1 optimality "
        "conditions are numerical and NOT decided",
        "functional forms of hpf_trend/hpf_gap are covered by C10-R2",
    ]

"""
C03 — Kalman filter, smoother and likelihood equal exact Gaussian conditioning (partial).

  R1  per-period likelihood contributions sum to the total on every path of calculate_likelihood
  R2  a period without observations contributes 0 and num_obs is the number of observed rows
  R3  producers of the period-system / period-data callbacks return tuples that agree with predict's unpacks
  R4  the observed-row mask is computed once per producer from the same array, so Z/H/D rows and y entries are selected together
  R5  every cache field one_step_back reads is written by predict under a guard that holds whenever a caller of
      one_step_back runs
  R6  abstract shapes of the prediction and smoothing recursions are conformable
"""
from __future__ import annotations

import ast

from .. import alg, dim
from ..alg import Undecided, sym, num, add, mul, div
from ..core import (tuple_agreement, AnalysisError, dotted, unparse, params, walk_no_nested, strip_docstring, squash, assign_value,
                    assignments, calls_to, returns_of, single_return, tuple_names, literal)
from ..symexec import Interp, is_ir, Opaque

KMOD = "irispie.fords.kalmans"
SMOD = "irispie.simultaneous._kalmans"
FMOD = "irispie.fords.simulators"


class LikInterp(Interp):
    """sum(<gen over self.all_X>) -> symbol S_X ; attribute stores tracked; method calls on self inlined"""

    def __init__(self, mod, flags):
        super().__init__()
        self.mod = mod
        self.flags = flags

    def test(self, node, env):
        t = squash(node)
        if t in self.flags:
            return self.flags[t]
        return None

    def call(self, node, env, name):
        if name == "sum" and len(node.args) == 1 and isinstance(node.args[0], ast.GeneratorExp):
            g = node.args[0]
            src = dotted(g.generators[0].iter)
            if src and src.startswith("self.all_") and isinstance(g.elt, ast.Name) and g.elt.id == g.generators[0].target.id:
                return sym("S_" + src[len("self.all_"):])
            return Opaque(unparse(node))
        if name in ("tuple", "float") and node.args:
            return Opaque(unparse(node))
        if name and name.startswith("self._") and self.mod.has("Cache." + name[5:]) and not node.args:
            f = self.mod.func("Cache." + name[5:])
            sub = LikInterp(self.mod, self.flags)
            outs = sub.run(f.body, env)
            # adopt the (single) resulting environment
            if len(outs) != 1:
                raise Undecided(f"{name} has {len(outs)} paths under the fixed flags")
            env.clear()
            env.update(outs[0][0])
            return Opaque("None")
        return NotImplemented

    def expr_stmt(self, st, env):
        self.ev(st.value, env)

    def attr_store(self, target, val, env, st):
        d = dotted(target)
        if d:
            env[d] = val


def rule_r1_r2(chk):
    chk.rule("C03-R1", "symbolic sum: with S_x = sum_t x_t, the total neg_log_likelihood equals the sum over t of the per-period "
             "contribution expression, on the path without variance rescaling and on the path with it", floor=2)
    chk.rule("C03-R2", "the contribution of a period is 0 when num_obs is 0 and is linear in that period's (log det F, pe'Fi pe, num_obs); "
             "num_obs is y1.size", floor=3)
    m = chk.repo.mod(KMOD)
    f = m.func("Cache.calculate_likelihood")
    g = m.func("Cache.calculate_likelihood_contributions")
    chk.saw(m, "Cache.calculate_likelihood"); chk.saw(m, "Cache.calculate_likelihood_contributions")
    # contribution element
    gens = [n for n in ast.walk(g) if isinstance(n, ast.GeneratorExp)]
    if len(gens) != 1:
        raise AnalysisError("anchor vanished: contributions generator")
    ge = gens[0]
    z = ge.generators[0].iter
    tgt = ge.generators[0].target
    if not (isinstance(z, ast.Call) and dotted(z.func) == "zip" and isinstance(tgt, ast.Tuple) and len(z.args) == len(tgt.elts)):
        chk.undecided("C03-R1", "fords.kalmans.Cache.calculate_likelihood_contributions", "generator is not a zip over cache fields", m.loc(g))
        return
    field_of = {}
    for a, t in zip(z.args, tgt.elts):
        d = dotted(a) or ""
        if not d.startswith("self.all_"):
            chk.undecided("C03-R1", "fords.kalmans.Cache.calculate_likelihood_contributions", f"zip over {d}", m.loc(g))
            return
        field_of[t.id] = d[len("self.all_"):]
    elt = ge.elt
    guard_ok = isinstance(elt, ast.IfExp) and isinstance(elt.test, ast.Name) and field_of.get(elt.test.id) == "num_obs" \
        and isinstance(elt.orelse, ast.Constant) and elt.orelse.value == 0
    chk.ob("C03-R2", "fords.kalmans.Cache.calculate_likelihood_contributions[empty period]", guard_ok,
           "element is `<expr> if num_obs else 0`" if guard_ok else f"element is {unparse(elt)[:80]}", m.loc(g))
    body = elt.body if isinstance(elt, ast.IfExp) else elt
    L = sym("LOG2PI")
    attr = lambda s: {"self._LOG_2_PI": L, "self.var_scale": sym("VS")}.get(s)
    try:
        per = alg.ToIR(env={v: sym("x_" + fld) for v, fld in field_of.items()}, attr=attr,
                       call=lambda node, conv: alg.app("log", conv(node.args[0])) if (dotted(node.func) or "").endswith(".log") else None)(body)
        # linear & homogeneous in the per-period variables
        vars_ = ["x_" + fld for fld in field_of.values()]
        lin = all(alg.is_zero(alg.diff(alg.diff(per, a), b)) for a in vars_ for b in vars_)
        at0 = alg.subst(per, {v: num(0) for v in vars_})
        chk.ob("C03-R2", "fords.kalmans.Cache.calculate_likelihood_contributions[linear]", lin and alg.is_zero(at0),
               f"contribution = {alg.show_rat(alg.nf(per))}: linear and zero at zero, so the sum over t acts on each term", m.loc(g))
        summed = alg.subst(per, {"x_" + fld: sym("S_" + fld) for fld in field_of.values()})
    except Undecided as e:
        chk.undecided("C03-R1", "fords.kalmans.Cache.calculate_likelihood_contributions", str(e), m.loc(g))
        return
    # total on both paths
    for label, flags in (("no rescaling", {"rescale_variance": False}),
                         ("rescaled variance", {"rescale_variance": True, "self.sum_num_obs==0": False})):
        it = LikInterp(m, flags)
        try:
            outs = it.run(f.body, {})
            if len(outs) != 1:
                raise Undecided(f"{len(outs)} paths")
            env = outs[0][0]
            total = env.get("self.neg_log_likelihood")
            if not is_ir(total):
                raise Undecided(f"total is {total!r}")
            total = alg.subst(total, {"self._LOG_2_PI": L})
            vs = env.get("self.var_scale")
            s2 = alg.subst(summed, {"VS": vs}) if is_ir(vs) else summed
            ok = alg.equal(total, s2)
            chk.ob("C03-R1", f"fords.kalmans.Cache[sum of contributions == total, {label}]", ok,
                   f"total = {alg.show_rat(alg.nf(total))}; sum of contributions = {alg.show_rat(alg.nf(s2))}", m.loc(f),
                   facts={"total": alg.show(total), "sum": alg.show(s2)})
        except Undecided as e:
            chk.undecided("C03-R1", f"fords.kalmans.Cache[sum of contributions == total, {label}]", str(e), m.loc(f))
    p = m.func("predict")
    no = [a for a in ast.walk(p) if isinstance(a, ast.Assign) and squash(a.targets[0]) == "cache.all_num_obs[t]"]
    ok = len(no) == 1 and squash(no[0].value) in ("y1.size", "len(y1)")
    chk.ob("C03-R2", "fords.kalmans.predict[num_obs]", ok if no else None, f"all_num_obs[t] = {unparse(no[0].value) if no else '?'}", m.loc(p))
    # kalman_filter computes contributions only after the total (var_scale known)
    kf = m.func("kalman_filter")
    a = calls_to(kf, "cache.calculate_likelihood")
    b = calls_to(kf, "cache.calculate_likelihood_contributions")
    ok = len(a) == 1 and len(b) == 1 and a[0].lineno < b[0].lineno
    chk.ob("C03-R2", "fords.kalmans.kalman_filter[order]", ok if a and b else None, "the total (and the variance scale) is computed before the contributions", m.loc(kf))


def rule_r3_r4(chk):
    chk.rule("C03-R3", "each producer of partial_generate_period_system / partial_generate_period_data returns a tuple whose named "
             "positions agree with predict's unpack targets (a swap is a violation, a rename is not)", floor=4)
    chk.rule("C03-R4", "within each producer the observed-row mask is one expression of one array, applied to every row-selected "
             "quantity; kalman_filter binds the same y array to both producers", floor=4)
    km = chk.repo.mod(KMOD)
    pred = km.func("predict")
    chk.saw(km, "predict")
    unp = {}
    for n in ast.walk(pred):
        if isinstance(n, ast.Assign) and isinstance(n.value, ast.Call) and isinstance(n.targets[0], ast.Tuple):
            d = dotted(n.value.func)
            if d in ("partial_generate_period_system", "partial_generate_period_data"):
                unp[d] = tuple_names(n.targets[0])
    if len(unp) != 2:
        raise AnalysisError("anchor vanished: predict's unpack of the period callbacks")
    norm_sys = lambda x: x.lower().replace("_t", "").strip("_")
    norm_dat = lambda x: x.lower().rstrip("01").strip("_")
    for modname in (SMOD, FMOD):
        mod = chk.repo.mod(modname)
        short = modname.replace("irispie.", "")
        for fn, key, norm in (("_generate_period_system", "partial_generate_period_system", norm_sys),
                              ("_generate_period_data", "partial_generate_period_data", norm_dat)):
            f = mod.func(fn)
            chk.saw(mod, fn)
            r = single_return(f)
            names = tuple_names(r) if r is not None else None
            if names:
                names = [n.split(".")[0] for n in names]
            ok, detail = tuple_agreement(names, unp[key], norm=norm)
            chk.ob("C03-R3", f"{short}.{fn}~predict", ok, f"returns {names}; predict unpacks {unp[key]}: {detail}", mod.loc(f))
            # returned name <-> its own definition: element k named X must be assigned from something containing X's role
            # mask: all subscripts using the mask name use one definition
            masks = [a for a in assignments(f, "inx_y") if "isnan" in squash(a.value)]
            uses = [n for n in ast.walk(f) if isinstance(n, ast.Subscript) and any(isinstance(x, ast.Name) and x.id == "inx_y" for x in ast.walk(n.slice))]
            if masks:
                one = len({squash(a.value) for a in masks}) == 1
                src_arrays = {unparse(x.value) for a in masks for x in ast.walk(a.value) if isinstance(x, ast.Subscript)}
                chk.ob("C03-R4", f"{short}.{fn}[mask]", one and len(src_arrays) == 1,
                       f"mask = {unparse(masks[0].value)} from {sorted(src_arrays)}; applied in {len(uses)} selection(s)", mod.loc(f))
    # system rows (Z, H, D) in the model producer all use the mask
    sm = chk.repo.mod(SMOD)
    f = sm.func("_generate_period_system")
    rows = {}
    for nm in ("Z", "H", "D"):
        v = assign_value(f, nm)
        rows[nm] = squash(v.slice.elts[0] if isinstance(v, ast.Subscript) and isinstance(v.slice, ast.Tuple) else v.slice) if isinstance(v, ast.Subscript) else None
    chk.ob("C03-R4", "simultaneous._kalmans._generate_period_system[Z,H,D rows]", all(v == "inx_y" for v in rows.values()) if all(rows.values()) else None,
           f"row selectors {rows}", sm.loc(f))
    kf = km.func("kalman_filter")
    chk.saw(km, "kalman_filter")
    ps = assign_value(kf, "partial_generate_period_system")
    pd = assign_value(kf, "partial_generate_period_data")
    a = next((squash(k.value) for k in getattr(ps, "keywords", []) if k.arg == "y1_array"), None)
    b = next((squash(k.value) for k in getattr(pd, "keywords", []) if k.arg == "y_array"), None)
    chk.ob("C03-R4", "fords.kalmans.kalman_filter[same y array]", (a == b and a is not None) if (a or b) else None,
           f"period system gets y1_array={a}; period data gets y_array={b}", km.loc(kf))
    # log applied to the y array before both are bound
    y1 = assignments(kf, "y1_array")
    logs = [n for n in ast.walk(kf) if isinstance(n, ast.Assign) and squash(n.targets[0]).startswith("y1_array[logly_within_y")]
    ok = bool(y1) and len(logs) == 1 and squash(logs[0].value) == "_np.log(y1_array[logly_within_y,:])" and ps is not None and logs[0].lineno < ps.lineno
    chk.ob("C03-R4", "fords.kalmans.kalman_filter[log measurement]", ok if logs else None,
           "log measurement variables are logged in the array both producers see", km.loc(kf))


def _guards_of(node, stop):
    out = []
    cur = node
    while getattr(cur, "_parent", None) is not None and cur is not stop:
        par = cur._parent
        if isinstance(par, ast.If):
            if cur in par.body:
                out.append(par.test)
            elif cur in par.orelse:
                out.append(ast.UnaryOp(op=ast.Not(), operand=par.test))
        cur = par
    return out


def _eval_guard(test, truth: dict):
    """boolean evaluation with store_* names given; unknown atoms are taken as True"""
    if isinstance(test, ast.BoolOp):
        vals = [_eval_guard(v, truth) for v in test.values]
        return all(vals) if isinstance(test.op, ast.And) else any(vals)
    if isinstance(test, ast.UnaryOp) and isinstance(test.op, ast.Not):
        return not _eval_guard(test.operand, truth)
    if isinstance(test, ast.Name) and test.id in truth:
        return truth[test.id]
    if isinstance(test, ast.Compare) and len(test.ops) == 1 and isinstance(test.left, ast.Name) and test.left.id in truth \
            and isinstance(test.comparators[0], ast.Constant) and test.comparators[0].value is None:
        v = truth[test.left.id]
        return (not v) if isinstance(test.ops[0], ast.Is) else v
    return True


def rule_r5(chk):
    chk.rule("C03-R5", "def-use under guards: each cache.all_* field read by one_step_back is assigned in predict, and its write guard "
             "is true under every configuration in which a caller of one_step_back runs (update: store_update set; smooth: store_smooth set)", floor=10)
    km = chk.repo.mod(KMOD)
    pred = km.func("predict")
    osb = km.func("one_step_back")
    chk.saw(km, "one_step_back")
    reads = sorted({n.value.attr for n in ast.walk(osb) if isinstance(n, ast.Subscript) and isinstance(n.value, ast.Attribute)
                    and isinstance(n.value.value, ast.Name) and n.value.value.id == params(osb)[1] and n.value.attr.startswith("all_")})
    writes = {}
    for n in ast.walk(pred):
        if isinstance(n, ast.Assign) and isinstance(n.targets[0], ast.Subscript) and isinstance(n.targets[0].value, ast.Attribute) \
                and unparse(n.targets[0].value.value) == "cache" and n.targets[0].value.attr.startswith("all_"):
            writes.setdefault(n.targets[0].value.attr, []).append(_guards_of(n, pred))
    # callers and their configurations
    callers = {}
    for q in ("update", "smooth"):
        f = km.func(q)
        if calls_to(f, "one_step_back"):
            callers[q] = {"store_update": q == "update", "store_smooth": q == "smooth", "store_predict": False}
    kf = km.func("kalman_filter")
    # confirm kalman_filter runs update/smooth exactly when the corresponding store callback exists
    for q in callers:
        c = calls_to(kf, q)
        g = [squash(t) for t in _guards_of(c[0], kf)] if c else []
        st = assign_value(kf, f"store_{q}")
        ok = bool(c) and g == [f"needs.return_{q}"] and st is not None and squash(st).endswith(f"ifneeds.return_{q}elseNone")
        chk.ob("C03-R5", f"fords.kalmans.kalman_filter[{q} <-> store_{q}]", ok if c else None,
               f"{q}() runs under {g}; store_{q} = {unparse(st)[-40:] if st is not None else '?'}", km.loc(kf))
    for fld in reads:
        if fld not in writes:
            chk.bad("C03-R5", f"fords.kalmans.one_step_back[{fld}]", f"cache.{fld} is read but predict never writes it", km.loc(osb))
            continue
        for q, truth in callers.items():
            ok = any(all(_eval_guard(t, truth) for t in guards) for guards in writes[fld])
            gtxt = [[unparse(t) for t in guards] for guards in writes[fld]]
            chk.ob("C03-R5", f"fords.kalmans.one_step_back[{fld} via {q}]", ok,
                   f"written under {gtxt}" + ("" if ok else f"; with only store_{q} set the field stays None and {q}() fails"), km.loc(osb))
    # unknown-init fields
    for q in ("estimate_unknown_init", "correct_for_unknown_init"):
        f = km.func(q)
        rd = sorted({n.attr for n in ast.walk(f) if isinstance(n, ast.Attribute) and unparse(n.value) == "cache" and n.attr.startswith("all_")})
        for fld in rd:
            if fld == "all_M":
                continue
            ok = fld in writes and any(all(_eval_guard(t, {"needs_estimate_unknown_init": True, "store_smooth": False, "store_update": False}) for t in guards)
                                       for guards in writes[fld])
            chk.ob("C03-R5", f"fords.kalmans.{q}[{fld}]", ok, "written whenever the unknown initial condition is estimated", km.loc(f))


def rule_r6(chk):
    chk.rule("C03-R6", "abstract shapes (state na, observed ny, shocks nu, nw; distinct primes, two instantiations) through the body of "
             "predict's loop and one_step_back: every product, sum and in-place update is conformable", floor=40)
    km = chk.repo.mod(KMOD)
    pred = km.func("predict")
    osb = km.func("one_step_back")
    loop = next(n for n in pred.body if isinstance(n, ast.For))
    for inst in ({"na": 5, "ny": 3, "nu": 7, "nw": 2}, {"na": 7, "ny": 2, "nu": 3, "nw": 5}) + \
            (({"na": 11, "ny": 13, "nu": 2, "nw": 17}, {"na": 2, "ny": 11, "nu": 13, "nw": 3}, {"na": 3, "ny": 7, "nu": 11, "nw": 13}) if chk.tier == "thorough" else ()):
        na, ny, nu, nw = inst["na"], inst["ny"], inst["nu"], inst["nw"]
        env = {"T": (na, na), "P": (na, nu), "K": (na,), "Z": (ny, na), "H": (ny, nw), "D": (ny,), "cov_u": (nu, nu), "cov_w": (nw, nw),
               "v_impact": (na,), "a1_prev": (na,), "Q1_prev": (na, na), "y1": (ny,), "u0": (nu,), "v0": (nu,), "w0": (nw,),
               "G_prev": (na, ny), "Z_prev": (ny, na), "Xi_prev": (na, na), "t": dim.Int(1)}
        funcs = {"_covariances.symmetrize": lambda s, n: s.ev(n.args[0]), "inv": lambda s, n: s.ev(n.args[0]),
                 "create_empty": lambda s, n: dim.TOP}
        sh = dim.Shapes(env=env, funcs=funcs)
        errs = []
        for st in loop.body:
            if isinstance(st, ast.Assign) and isinstance(st.targets[0], ast.Tuple) and isinstance(st.value, ast.Call):
                continue      # the unpack of the callbacks: shapes are the inputs above
            if isinstance(st, ast.If) and squash(st.test) == "PisnotNone":
                sh.run(st.body, lambda mm, s: errs.append((mm, s)))
                continue
            sh.stmt(st, lambda mm, s: errs.append((mm, s)))
        want = {"Q0": (na, na), "F": (ny, ny), "a0": (na,), "y0": (ny,), "G": (na, ny), "Q1": (na, na), "pe": (ny,), "a1": (na,)}
        got = {k: sh.env.get(k) for k in want}
        tag = f"[na={na},ny={ny}]"
        chk.ob("C03-R6", f"fords.kalmans.predict{tag}[conformable]", not errs,
               f"{sh.checks} conformability checks" + (f"; {errs[0][0]} at `{unparse(errs[0][1])[:60]}`" if errs else ""),
               km.loc(errs[0][1]) if errs else km.loc(pred))
        chk.ob("C03-R6", f"fords.kalmans.predict{tag}[result shapes]", got == want, f"{got}", km.loc(pred))
        chk.extra[f"c03_predict_checks{tag}"] = sh.checks
        # one_step_back
        env2 = {f"cache.all_{k}": dim.TOP for k in ()}
        sh2 = dim.Shapes(env={"N": (na, na), "r": (na,), "t": dim.Int(1)}, funcs=funcs)
        cache_shapes = {"a0": (na,), "y": (ny,), "u0": (nu,), "v0": (nu,), "w0": (nw,), "Q0": (na, na), "T_G_prev": (na, ny), "P_cov_u": (na, nu),
                        "H_cov_w": (ny, nw), "L": (na, na), "Zt_Fi": (na, ny), "Fi": (ny, ny), "Z": (ny, na), "pe": (ny,)}
        errs2 = []

        def on(mm, s):
            errs2.append((mm, s))
        def run_body(stmts):
            for st in stmts:
                if isinstance(st, ast.Assign) and isinstance(st.value, ast.Subscript) and isinstance(st.value.value, ast.Attribute) \
                        and unparse(st.value.value.value) == "cache" and st.value.value.attr.startswith("all_"):
                    sh2.env[st.targets[0].id] = cache_shapes.get(st.value.value.attr[4:], dim.TOP)
                    continue
                if isinstance(st, ast.If) and squash(st.test) in ("NisNone", "risNone"):
                    run_body(st.orelse)          # the general (non-first) step
                    continue
                if isinstance(st, ast.If):
                    run_body(st.body)
                    continue
                sh2.stmt(st, on)
        run_body(strip_docstring(osb.body))
        want2 = {"ak": (na,), "uk": (nu,), "wk": (nw,), "Qk": (na, na), "N": (na, na), "r": (na,)}
        got2 = {k: sh2.env.get(k) for k in want2}
        chk.ob("C03-R6", f"fords.kalmans.one_step_back{tag}[conformable]", not errs2,
               f"{sh2.checks} conformability checks" + (f"; {errs2[0][0]} at `{unparse(errs2[0][1])[:60]}`" if errs2 else ""),
               km.loc(errs2[0][1]) if errs2 else km.loc(osb))
        chk.ob("C03-R6", f"fords.kalmans.one_step_back{tag}[result shapes]", got2 == want2, f"{got2}", km.loc(osb))
        # floor via an obligation per 10 checks so the floor means something
        total_checks = sh.checks + sh2.checks
        for i in range(total_checks // 2):
            chk.ok("C03-R6", f"fords.kalmans{tag}[check {i}]", "conformability check performed")


def rule_r7(chk, rid="C03-R7"):
    chk.rule(rid, "the smoother's backward recursions (r, N) run for every period up to the last one with observations: the guard of "
             "the block that updates r and N is a threshold on t (not a per-period quantity), and predict records the last "
             "period with observations under `any_y`", floor=1)
    km = chk.repo.mod(KMOD)
    osb = km.func("one_step_back")
    rec = [n for n in ast.walk(osb) if isinstance(n, ast.Assign) and unparse(n.targets[0]) in ("r", "N") and "L.T" in unparse(n.value)]
    if not rec:
        chk.undecided(rid, "fords.kalmans.one_step_back[recursion]", "r/N recursion not recognised", km.loc(osb))
        return
    guards = []
    for n in rec:
        for t in _guards_of(n, osb):
            if squash(t) not in ("NisNone", "risNone", "not(NisNone)", "not(risNone)") and not (isinstance(t, ast.UnaryOp) and squash(t.operand) in ("NisNone", "risNone")):
                guards.append(t)
    uniq = {squash(g): g for g in guards}
    tname = params(osb)[0]
    for txt, g in uniq.items():
        per_period = [unparse(x) for x in ast.walk(g) if isinstance(x, ast.Subscript) and any(isinstance(y, ast.Name) and y.id == tname for y in ast.walk(x.slice))]
        # does the other branch keep the recursion going?
        ok = not per_period
        chk.ob(rid, f"fords.kalmans.one_step_back[recursion guard {txt}]", ok,
               "threshold on t: the recursion is contiguous" if ok else
               f"the r/N recursion runs only when {unparse(g)} — a per-period quantity ({per_period}): an interior period without "
               "observations interrupts the backward pass, so everything before the gap is smoothed wrongly", km.loc(g))
    pred = km.func("predict")
    lp = [n for n in ast.walk(pred) if isinstance(n, ast.Assign) and squash(n.targets[0]) == "cache.last_period_of_observations"]
    uses = any("last_period_of_observations" in squash(g) for g in uniq.values())
    if uses:
        under_any = [n for n in lp if [squash(t) for t in _guards_of(n, pred)] == ["any_y"] and squash(n.value) == "t"]
        init = [n for n in lp if not _guards_of(n, pred)]
        chk.ob(rid, "fords.kalmans.predict[last period of observations]", bool(under_any) and bool(init),
               "initialised before the loop and set to t whenever period t has observations", km.loc(pred))


def rule_r8(chk):
    chk.rule("C03-R8", "one period axis: the filter loop runs over the periods of the input dataslate (which prepend_initial / "
             "append_terminal extend beyond the base span); the per-period info series (log_det_F, likelihood contributions) and the "
             "frame are stamped with that same dataslate's periods, and the arrays behind them are preallocated with num_periods", floor=4)
    km = chk.repo.mod(KMOD)
    kf = km.func("kalman_filter")
    chk.saw(km, "kalman_filter")
    pc = calls_to(kf, "predict")
    ci = [n for n in ast.walk(kf) if isinstance(n, ast.Call) and isinstance(n.func, ast.Attribute) and n.func.attr == "create_out_info"]
    if len(pc) != 1 or len(ci) != 1:
        chk.undecided("C03-R8", "fords.kalmans.kalman_filter[period axis]", "predict / create_out_info calls not recognised", km.loc(kf))
        return
    kw = {k.arg: k.value for k in pc[0].keywords}
    npv = kw.get("num_periods")
    ds = unparse(npv.value) if isinstance(npv, ast.Attribute) and npv.attr == "num_periods" else None
    chk.ob("C03-R8", "fords.kalmans.kalman_filter[filtered periods]", True if ds else None,
           f"predict(num_periods={unparse(npv) if npv is not None else None})", km.loc(pc[0]))
    if ds is None:
        return
    # which dataslate is it a variant of?
    root = ds
    for n in ast.walk(kf):
        if isinstance(n, ast.Assign) and isinstance(n.value, ast.Call) and dotted(n.value.func) == "zip":
            tg = tuple_names(n.targets[0]) if isinstance(n.targets[0], ast.Tuple) else None
        if isinstance(n, ast.For) and isinstance(n.target, ast.Tuple) and ds in [unparse(e) for e in n.target.elts]:
            idx = [unparse(e) for e in n.target.elts].index(ds)
            it = n.iter
            if isinstance(it, ast.Name):
                it = assign_value(kf, it.id)
            if isinstance(it, ast.Call) and dotted(it.func) == "zip" and idx < len(it.args):
                a = it.args[idx]
                if isinstance(a, ast.Call) and isinstance(a.func, ast.Attribute) and a.func.attr == "iter_variants":
                    root = unparse(a.func.value)
    arg = ci[0].args[0] if ci[0].args else None
    at = unparse(arg) if arg is not None else None
    same_axis = at in (f"{ds}.periods", f"{root}.periods")
    # is the dataslate's span possibly wider than the argument `span`?
    mk = [n for n in ast.walk(kf) if isinstance(n, ast.Call) and (dotted(n.func) or "").endswith("from_databox_for_slatable")]
    extends = False
    if mk:
        mkw = {k.arg: k.value for k in mk[0].keywords}
        extends = any(not (isinstance(mkw.get(o), ast.Constant) and mkw[o].value is False) for o in ("prepend_initial", "append_terminal") if o in mkw)
    ok = True if same_axis else (False if extends else None)
    chk.ob("C03-R8", "fords.kalmans.kalman_filter[info series periods]", ok,
           f"create_out_info({at}) vs filtered periods {ds}.periods" + ("" if same_axis else
           "; the dataslate is built with prepend_initial/append_terminal passed through, so it can be longer than that argument: "
           "Series(periods=..., values=<one entry per filtered period>) raises a shape mismatch"), km.loc(ci[0]))
    fr = [n for n in ast.walk(kf) if isinstance(n, ast.Call) and dotted(n.func) == "Frame"]
    if fr:
        fkw = {k.arg: unparse(k.value) for k in fr[0].keywords}
        ok = fkw.get("start") == f"{root}.periods[0]" and fkw.get("end") == f"{root}.periods[-1]" and fkw.get("simulation_end") == f"{root}.periods[-1]"
        chk.ob("C03-R8", "fords.kalmans.kalman_filter[frame]", ok, f"Frame({fkw}) covers the dataslate's periods", km.loc(fr[0]))
    # info series are built from per-period arrays preallocated by num_periods
    coi = km.methods("Cache").get("create_out_info")
    pre = km.class_attr("Cache", "_slots_to_preallocate")
    pre_names = [literal(e) for e in pre.elts] if pre is not None else []
    used = [n.attr for n in ast.walk(coi) if isinstance(n, ast.Attribute) and isinstance(n.value, ast.Name) and n.value.id == "self"
            and any(isinstance(p_, ast.keyword) and p_.arg == "values" and p_.value is n for c in ast.walk(coi) if isinstance(c, ast.Call) for p_ in c.keywords)]
    span_p = params(coi)[1]
    stamped = [c for c in ast.walk(coi) if isinstance(c, ast.Call) and any(k.arg == "values" for k in c.keywords)]
    ok = bool(stamped) and all(unparse({k.arg: k.value for k in c.keywords}.get("periods")) == span_p for c in stamped)
    chk.ob("C03-R8", "fords.kalmans.Cache.create_out_info[stamping]", ok, f"each per-period array ({used}) is stamped with the periods argument", km.loc(coi))
    cache_methods = km.methods("Cache")

    def per_period(expr, scope, depth=0):
        """True if expr has one entry per filtered period: a preallocated slot, or an unfiltered comprehension over such (zipped) arrays"""
        if depth > 16:
            return None
        if isinstance(expr, ast.Attribute) and isinstance(expr.value, ast.Name) and expr.value.id == "self":
            if expr.attr in pre_names:
                return True
            defs = [(n.value, f) for f in cache_methods.values() for n in ast.walk(f)
                    if isinstance(n, ast.Assign) and unparse(n.targets[0]) == f"self.{expr.attr}" and not (isinstance(n.value, ast.Constant) and n.value.value is None)]
            if not defs:
                return None
            rs = [per_period(v, f, depth + 1) for v, f in defs]
            return True if all(r is True for r in rs) else False if any(r is False for r in rs) else None
        if isinstance(expr, ast.Name):
            v = assign_value(scope, expr.id)
            return per_period(v, scope, depth + 1) if v is not None else None
        if isinstance(expr, ast.Call) and dotted(expr.func) in ("tuple", "list") and len(expr.args) == 1:
            return per_period(expr.args[0], scope, depth + 1)
        if isinstance(expr, (ast.GeneratorExp, ast.ListComp)):
            if len(expr.generators) != 1:
                return None
            g = expr.generators[0]
            if g.ifs:
                return False            # a filter changes the length
            return per_period(g.iter, scope, depth + 1)
        if isinstance(expr, ast.Call) and dotted(expr.func) == "zip":
            rs = [per_period(a, scope, depth + 1) for a in expr.args]
            return True if rs and all(r is True for r in rs) else False if any(r is False for r in rs) else None
        return None
    for u in used:
        r = per_period(ast.parse(f"self.{u}", mode="eval").body, coi)
        chk.ob("C03-R8", f"fords.kalmans.Cache[{u} per filtered period]", r,
               f"{u} has one entry per filtered period (preallocated by num_periods, or an unfiltered comprehension over such arrays)", km.loc(coi))


def rule_r10(chk, rid="C03-R10"):
    chk.rule(rid, "every pass of the filter covers every filtered period: the loops over t in predict, correct_for_unknown_init, update and "
             "smooth iterate range(num_periods) (reversed for the smoother) - the per-period arrays they fill or correct have exactly "
             "that many entries, and forecasts past the last observation are conditional moments too", floor=4, shape_independent=True)
    km = chk.repo.mod(KMOD)
    for q in ("predict", "correct_for_unknown_init", "update", "smooth"):
        f = km.func(q)
        chk.saw(km, q)
        loops = [n for n in walk_no_nested(f) if isinstance(n, ast.For) and isinstance(n.target, ast.Name) and n.target.id == "t"]
        if len(loops) != 1:
            chk.undecided(rid, f"fords.kalmans.{q}[loop over periods]", f"{len(loops)} loops over t", km.loc(f))
            continue
        from .. import fin
        from ..core import inline_locals
        try:
            got = list(fin.ev(inline_locals(f, loops[0].iter), {"num_periods": 5, "cache.num_periods": 5, "cache.last_period_of_observations": 3}))
            want = list(range(5))
            ok = got == want or got == want[::-1]
            chk.ob(rid, f"fords.kalmans.{q}[loop over periods]", ok,
                   f"for t in {unparse(loops[0].iter)}" + ("" if ok else f": with 5 filtered periods (last observation in period 3) it visits {got}, not every period"),
                   km.loc(loops[0]), sure=True)
        except fin.NotFinite as ex:
            chk.undecided(rid, f"fords.kalmans.{q}[loop over periods]", f"iterable not evaluable: {ex}", km.loc(loops[0]))


def rule_r11(chk, rid="C03-R11"):
    chk.rule(rid, "every output store that is present is processed, whichever others are absent: _OutputStore.rescale_stds rescales the "
             "variants of each of predict_std / update_std / smooth_std that is not None, and _OutputStore.extend extends every slot that "
             "is not None - by finite evaluation of the method bodies on all 2^n present/absent combinations with recording stand-ins",
             floor=2, shape_independent=True)
    import itertools
    from .. import fin
    km = chk.repo.mod(KMOD)
    cls = km.classes().get("_OutputStore") if hasattr(km, "classes") else None
    f = km.func("_OutputStore.rescale_stds")
    chk.saw(km, "_OutputStore.rescale_stds")
    names = None
    for n in ast.walk(f):
        if isinstance(n, ast.For) and isinstance(n.iter, (ast.Tuple, ast.List)) and all(isinstance(e, ast.Constant) and isinstance(e.value, str) for e in n.iter.elts):
            names = [e.value for e in n.iter.elts]
    std_slots = sorted(x for x in _output_store_slots(km) if x.endswith("_std"))
    if names is None:
        names = std_slots
    bad = None
    n_comb = 0
    try:
        for present in itertools.product((False, True), repeat=len(std_slots)):
            log = []
            def store(nm):
                return fin.FinObj(_dataslate=fin.FinObj(_variants=[fin.FinObj(rescale_data=(lambda k, _n=nm, _i=i: log.append((_n, _i, k)))) for i in range(2)]),
                                  rescale_data=(lambda k, _n=nm: log.extend([(_n, 0, k), (_n, 1, k)])))
            me = fin.FinObj(**{nm: (store(nm) if p_ else None) for nm, p_ in zip(std_slots, present)})
            fin.run_function(f, {params(f)[0]: me, params(f)[1]: 4}, funcs={"_covariances.sqrt_positive": lambda x: ("sqrt", x), "_np.sqrt": lambda x: ("sqrt", x)})
            n_comb += 1
            want = {(nm, i) for nm, p_ in zip(std_slots, present) if p_ for i in range(2)}
            got = {(nm, i) for nm, i, _ in log}
            wrong_scale = [k for _, _, k in log if k != ("sqrt", 4)]
            if got != want or wrong_scale or len(log) != len(want):
                miss = sorted({nm for nm, _ in want - got})
                bad = (f"with {[nm for nm, p_ in zip(std_slots, present) if p_]} present and the others None, "
                       + (f"{miss} is never rescaled" if miss else f"stores are rescaled {len(log)} times by {wrong_scale[:1] or 'sqrt(var_scale)'} (expected once each by the square root of var_scale)"))
                break
    except (fin.NotFinite, fin.Raised) as ex:
        chk.undecided(rid, "fords.kalmans._OutputStore.rescale_stds", f"not finitely evaluable: {ex}", km.loc(f))
    else:
        chk.ob(rid, "fords.kalmans._OutputStore.rescale_stds", bad is None, bad or f"all {n_comb} present/absent combinations of {std_slots}: each present store rescaled once "
               "per variant by sqrt(var_scale)", km.loc(f), sure=True)
    g = km.func("_OutputStore.extend")
    chk.saw(km, "_OutputStore.extend")
    slots = sorted(_output_store_slots(km))
    bad = None
    n_comb = 0
    try:
        for present in itertools.product((False, True), repeat=len(slots)):
            log = []
            me = fin.FinObj(**{nm: (fin.FinObj(extend=(lambda o, _n=nm: log.append((_n, o)))) if p_ else None) for nm, p_ in zip(slots, present)}, **{"__slots__": tuple(slots)})
            other = fin.FinObj(**{nm: ("other", nm) for nm in slots}, **{"__slots__": tuple(slots)})
            fin.run_function(g, {params(g)[0]: me, params(g)[1]: other})
            n_comb += 1
            want = sorted((nm, ("other", nm)) for nm, p_ in zip(slots, present) if p_)
            if sorted(log) != want:
                bad = f"with {[nm for nm, p_ in zip(slots, present) if p_]} present: extended {sorted(log)}, expected each present slot with its namesake"
                break
    except (fin.NotFinite, fin.Raised) as ex:
        chk.undecided(rid, "fords.kalmans._OutputStore.extend", f"not finitely evaluable: {ex}", km.loc(g))
    else:
        chk.ob(rid, "fords.kalmans._OutputStore.extend", bad is None, bad or f"all {n_comb} present/absent combinations of {len(slots)} slots: every present slot extended "
               "with the same slot of the other store", km.loc(g), sure=True)


def rule_r14(chk, rid="C03-R14"):
    chk.rule(rid, "the prior mean of the state: the stable block solves alpha_s = Ta_s alpha_s + Ka_s (the stable submatrices only) and sits in the "
             "LAST num_stable slots of alpha, after num_unit_roots zeros for the unit-root elements - _initialize_med evaluated finitely with "
             "symbolic matrices (2 unit roots, 3 stable elements)", floor=1, shape_independent=True)
    from .. import fin
    im = chk.repo.mod("irispie.fords.initializers")
    f = im.func("_initialize_med")
    chk.saw(im, "_initialize_med")

    class _M(fin.FinObj):
        def __init__(self, label):
            super().__init__(label=label)
        def __sub__(self, o):
            return _M(f"({self.label} - {o.label})")
        def __repr__(self):
            return self.label

    class _Solved(fin.FinObj):
        def __init__(self, T, K, n):
            super().__init__(what=f"solve({T!r}, {K!r})", n=n)
        def __iter__(self):
            return iter([f"{self.what}[{i}]" for i in range(self.n)])
        def __len__(self):
            return self.n
        def __getitem__(self, k):
            return list(self)[k]
        def __setitem__(self, k, v):
            raise fin.NotFinite("in-place edit of the solved vector")
    class _NpList(list):
        """1-D array: a scalar assigned to a slice is broadcast, a vector must fit"""
        def __setitem__(self, k, v):
            if isinstance(k, slice):
                idx = range(*k.indices(len(self)))
                vals = list(v) if isinstance(v, (list, tuple)) else [v] * len(idx)
                if len(vals) != len(idx):
                    raise fin.Raised("could not broadcast input array")
                for i_, x_ in zip(idx, vals):
                    list.__setitem__(self, i_, x_)
            else:
                list.__setitem__(self, k, v)
    NU, NS = 2, 3
    sol = fin.FinObj(num_alpha=NU + NS, num_unit_roots=NU, num_stable=NS, Ta_stable=_M("Ta_s"), Ka_stable=_M("Ka_s"), Pa_stable=_M("Pa_s"),
                     Ta=_M("Ta"), Ka=_M("Ka"), Pa=_M("Pa"))
    sizes = {"Ta_s": NS, "Ka_s": NS, "Ta": NU + NS, "Ka": NU + NS}
    def left_div(T, K):
        n = sizes.get(K.label)
        if n is None:
            raise fin.NotFinite("left_div of something else")
        return _NpList(_Solved(T, K, n))
    funcs = {"_np.zeros": lambda shape, **kw: _NpList([0] * (shape[0] if isinstance(shape, tuple) else shape)), "_np.eye": lambda n, **kw: _M(f"I{n}"),
             "left_div": left_div, "_np.linalg.solve": left_div, "_np.concatenate": lambda parts, **kw: [x for p_ in parts for x in p_],
             "_np.hstack": lambda parts, **kw: [x for p_ in parts for x in p_]}
    try:
        got = list(fin.run_function(f, {params(f)[0]: sol}, funcs))
    except (fin.NotFinite, fin.Raised, TypeError, AttributeError, IndexError) as ex:
        chk.undecided(rid, "fords.initializers._initialize_med", f"not finitely evaluable: {type(ex).__name__}: {ex}", im.loc(f))
        return
    want = [0] * NU + [f"solve((I{NS} - Ta_s), Ka_s)[{i}]" for i in range(NS)]
    chk.ob(rid, "fords.initializers._initialize_med", got == want, "alpha = (0, 0, solve(I - Ta_s, Ka_s)): unit-root elements zero, stable block behind them" if got == want else
           f"with 2 unit roots and 3 stable elements the prior mean is {got}, expected {want}", im.loc(f), sure=True)


def _output_store_slots(km):
    from .. import fin
    for n in ast.walk(km.tree):
        if isinstance(n, ast.ClassDef) and n.name == "_OutputStore":
            env = {}
            for st in n.body:
                if isinstance(st, ast.Assign) and len(st.targets) == 1 and isinstance(st.targets[0], ast.Name):
                    try:
                        env[st.targets[0].id] = fin.ev(st.value, env)
                    except fin.NotFinite:
                        pass
            if isinstance(env.get("__slots__"), tuple) and all(isinstance(x, str) for x in env["__slots__"]):
                return list(env["__slots__"])
    raise AnalysisError("anchor vanished: _OutputStore.__slots__")


def run(chk):
    chk.guard(rule_r14, chk)
    chk.guard(rule_r11, chk)
    chk.guard(rule_r1_r2, chk)
    chk.guard(rule_r7, chk)
    chk.guard(rule_r3_r4, chk)
    chk.guard(rule_r5, chk)
    chk.guard(rule_r6, chk)
    chk.guard(rule_r8, chk)
    chk.guard(rule_r10, chk)
    from . import c01
    chk.guard(c01.rule_r4, chk, rid="C03-R9")
    from .. import unused as _unused
    chk.guard(_unused.apply, chk, "C03-R91")
    from .. import slatables as _slatables
    chk.guard(_slatables.apply, chk, "C03-R13", (("irispie.simultaneous._slatable_protocols", "_slatable_for_simulate_or_kalman_filter"),))
    from .. import basis as _basis
    chk.guard(_basis.apply, chk, "C03-R12")
    from .. import args as _args
    chk.guard(_args.apply, chk, "C03-R90", {'fords'}, 1)
    chk.assumptions = [
        "equality with exact Gaussian conditioning is numerical: NOT decided (only the algebraic/structural clauses above)",
        "diffuse initialisation and the smoother algebra beyond shapes are not decided",
        "sums over periods skip None entries, which are the periods where nothing was computed",
    ]

"""
C08 — smoothed estimates reproduce the data and are a simulation of the model (partial).

  R1  the three output stores (predict / update / smooth) map state, shocks and measurement to names identically
  R2  the measurement rows logged on input and the names exponentiated on output derive from the same log status;
      to_output_arg exponentiates exactly the renamed rows
  R3  the state transform used by the stores and the system matrices given to the filter come from one solution
      object and from its triangular ("a") representation consistently
"""
from __future__ import annotations

import ast

from ..core import (AnalysisError, dotted, unparse, params, walk_no_nested, strip_docstring, squash, assign_value, assignments,
                    calls_to, returns_of, single_return, tuple_names)

KMOD = "irispie.fords.kalmans"
SMOD = "irispie.simultaneous._kalmans"


def _role(argname: str) -> str:
    """a0/xi -> state ; u0/u -> u ; full_y0/full_y -> y ; ..."""
    a = argname.lower().replace("full_", "").rstrip("012")
    if a in ("a", "xi", "ak"):
        return "state"
    if a in ("q", "qk"):
        return "state_mse"
    if a.startswith("cov_"):
        return a[4:] + "_mse"
    return a


def _store_facts(f, target_attr, methods=None, _base=None, _actuals=None):
    """calls self.<target_attr>.store(arg, (QIDS, t), **kw) -> list of (role, qids, kwargs); a helper method of the same class that
    is handed self.<target_attr> is followed one level (its parameters are read as the caller's arguments)"""
    from ..core import inline_locals
    out = []
    base = _base or f"self.{target_attr}"
    actuals = _actuals or {}

    def txt(node):
        e = inline_locals(f, node)
        t = squash(e)
        return actuals.get(t, t)
    for c in ast.walk(f):
        if isinstance(c, ast.Call) and isinstance(c.func, ast.Attribute) and c.func.attr in ("store", "store_from_mse") \
                and squash(c.func.value) == base and len(c.args) == 2:
            arg = actuals.get(unparse(c.args[0]), unparse(c.args[0]))
            idx = c.args[1]
            two = isinstance(idx, ast.Tuple) and len(idx.elts) == 2
            rows = unparse(idx.elts[0]) if two else unparse(idx)
            cols = actuals.get(unparse(idx.elts[1]), unparse(idx.elts[1])) if two else None
            rows_src = txt(idx.elts[0]) if two else txt(idx)
            kw = tuple(sorted((k.arg, txt(k.value)) for k in c.keywords))
            out.append({"arg": arg, "role": _role(arg), "rows": rows, "rows_src": rows_src, "cols": cols, "kw": kw, "node": c})
        elif methods and _base is None and isinstance(c, ast.Call) and isinstance(c.func, ast.Attribute) and squash(c.func.value) == "self" \
                and c.func.attr in methods and any(squash(a) == base for a in c.args):
            g = methods[c.func.attr]
            ps = params(g)[1:]
            amap = {p_: unparse(a) for p_, a in zip(ps, c.args)}
            pbase = next(p_ for p_, a in zip(ps, c.args) if squash(a) == base)
            sub = _store_facts(g, target_attr, None, _base=pbase, _actuals={k: v for k, v in amap.items() if k != pbase})
            for x in sub:
                x["node"] = c
            out.extend(sub)
    return out


def rule_r1(chk):
    chk.rule("C08-R1", "store_predict/store_update/store_smooth: the state goes to (curr_xi_qids, t) through rhs_indexes=curr_xi_indexes and "
             "transform=self.transform; u, v, w go to their own qids; y goes to y_qids after expansion to the full measurement vector; "
             "the three stores agree block by block, and each argument's role matches the qids it is stored under", floor=30)
    m = chk.repo.mod(KMOD)
    kinds = ("predict", "update", "smooth")
    facts = {}
    meths = m.methods("_OutputStore")
    for k in kinds:
        f = m.func(f"_OutputStore.store_{k}")
        chk.saw(m, f"_OutputStore.store_{k}")
        facts[k] = {"med": _store_facts(f, f"{k}_med", meths), "std": _store_facts(f, f"{k}_std", meths), "f": f}
    want_rows = {"state": "self.squid.curr_xi_qids", "u": "self.squid.u_qids", "v": "self.squid.v_qids", "w": "self.squid.w_qids", "y": "self.squid.y_qids"}
    state_kw = (("rhs_indexes", "self.squid.curr_xi_indexes"), ("transform", "self.transform"))
    for k in kinds:
        med = facts[k]["med"]
        f = facts[k]["f"]
        roles = [x["role"] for x in med]
        chk.ob("C08-R1", f"fords.kalmans._OutputStore.store_{k}[blocks]", sorted(roles) == sorted(want_rows),
               f"stores blocks {roles}", m.loc(f))
        for x in med:
            role = x["role"]
            if role not in want_rows:
                chk.undecided("C08-R1", f"fords.kalmans._OutputStore.store_{k}[{x['arg']}]", f"unknown role of argument {x['arg']}", m.loc(x["node"]))
                continue
            ok = x["rows_src"] == want_rows[role] and x["cols"] == "t"
            chk.ob("C08-R1", f"fords.kalmans._OutputStore.store_{k}[{role} rows]", ok,
                   f"{x['arg']} -> rows {x['rows']} (= {x['rows_src']}), column {x['cols']}", m.loc(x["node"]))
            if role == "state":
                chk.ob("C08-R1", f"fords.kalmans._OutputStore.store_{k}[state mapping]", x["kw"] == state_kw,
                       f"state stored with {dict(x['kw'])}", m.loc(x["node"]))
            else:
                chk.ob("C08-R1", f"fords.kalmans._OutputStore.store_{k}[{role} plain]", x["kw"] == (),
                       f"{role} stored as is" if x["kw"] == () else f"{role} stored with {dict(x['kw'])}", m.loc(x["node"]))
        # y goes through _expand_y_to_full of the y argument
        exp = [n for n in ast.walk(f) if isinstance(n, ast.Assign) and isinstance(n.value, ast.Call) and squash(n.value.func) == "self._expand_y_to_full"
               and _role(unparse(n.targets[0])) == "y"]
        ok = len(exp) == 1 and _role(unparse(exp[0].value.args[0])) == "y" and squash(exp[0].value.args[1]) == "t"
        chk.ob("C08-R1", f"fords.kalmans._OutputStore.store_{k}[y expansion]", ok if exp else False,
               "observed y is expanded to the full measurement vector of period t before it is stored", m.loc(f))
        for x in facts[k]["std"]:
            if x["role"] == "state_mse":
                ok = x["rows_src"] == want_rows["state"] and x["kw"] == state_kw
                chk.ob("C08-R1", f"fords.kalmans._OutputStore.store_{k}[state std]", ok, f"{x['arg']} -> {x['rows_src']} with {dict(x['kw'])}", m.loc(x["node"]))
    # sibling agreement med blocks
    sig = {k: sorted((x["role"], x["rows_src"], x["kw"]) for x in facts[k]["med"]) for k in kinds}
    chk.ob("C08-R1", "fords.kalmans._OutputStore[three stores agree]", sig["predict"] == sig["update"] == sig["smooth"],
           "identical (role, rows, mapping) in all three stores" if sig["predict"] == sig["update"] == sig["smooth"] else f"{sig}", m.loc(facts["predict"]["f"]))
    # callers pass arguments by the names the stores expect
    for fn, store, mapping in (("update", "store_update", {"xi": "a", "y": "y", "u": "u", "v": "v", "w": "w"}),
                               ("smooth", "store_smooth", {"xi": "a", "y": "y", "u": "u", "v": "v", "w": "w"})):
        f = m.func(fn)
        chk.saw(m, fn)
        c = calls_to(f, store)
        if not c:
            chk.undecided("C08-R1", f"fords.kalmans.{fn}[keywords]", "store call not found", m.loc(f))
            continue
        bad = [(k.arg, unparse(k.value)) for k in c[0].keywords if k.arg in mapping and not unparse(k.value).lower().startswith(mapping[k.arg])]
        chk.ob("C08-R1", f"fords.kalmans.{fn}[keywords]", not bad,
               f"{store}({', '.join(f'{k.arg}={unparse(k.value)}' for k in c[0].keywords)})", m.loc(c[0]))
        un = [n for n in ast.walk(f) if isinstance(n, ast.Assign) and isinstance(n.value, ast.Call) and dotted(n.value.func) == "one_step_back"]
        ret = tuple_names(single_return(m.func("one_step_back")))
        if un and ret:
            from ..core import tuple_agreement
            ok, detail = tuple_agreement(ret, tuple_names(un[0].targets[0]), norm=lambda s: s.lower().rstrip("012k").replace("xi", "a"))
            chk.ob("C08-R1", f"fords.kalmans.{fn}[one_step_back unpack]", ok, f"returns {ret}; unpacked {tuple_names(un[0].targets[0])}: {detail}", m.loc(un[0]))
    e = m.func("_OutputStore._expand_y_to_full")
    src = squash(e)
    ok = "inx_y=self.measurement_incidence[:,t]" in src and "full=_np.full(inx_y.shape,_np.nan)" in src and "full[inx_y]=observed" in src
    chk.ob("C08-R1", "fords.kalmans._OutputStore._expand_y_to_full", ok, "observed entries are placed at the observed rows of period t, the rest is NaN", m.loc(e))


def rule_r2(chk):
    chk.rule("C08-R2", "log status: the rows of y logged on input and the names renamed/exponentiated on output are both selected by "
             "qid_to_logly; _MedLogDataslate.to_output_arg copies each log series to its name and exponentiates that copy", floor=5)
    m = chk.repo.mod(KMOD)
    kf = m.func("kalman_filter")
    chk.saw(m, "kalman_filter")
    lw = assign_value(kf, "logly_within_y")
    ok = lw is not None and "fori,qidinenumerate(squid.y_qids)ifqid_to_logly.get(qid,False)" in squash(lw)
    chk.ob("C08-R2", "fords.kalmans.kalman_filter[logly_within_y]", ok if lw is not None else None,
           "rows of the measurement array whose qid is a log-variable", m.loc(kf))
    nl = assign_value(kf, "name_to_log_name")
    ok = nl is not None and "forqid,ninenumerate(input_ds.names)ifqid_to_logly.get(qid,False)" in squash(nl) and "_quantities.wrap_logly(n)" in squash(nl)
    chk.ob("C08-R2", "fords.kalmans.kalman_filter[name_to_log_name]", ok if nl is not None else None,
           "names of the dataslate rows whose qid is a log-variable, mapped to their log names", m.loc(kf))
    ql = assign_value(kf, "qid_to_logly")
    chk.ob("C08-R2", "fords.kalmans.kalman_filter[one log table]", squash(ql) == "model.create_qid_to_logly()" if ql is not None else None,
           "both selections read the model's single qid_to_logly table", m.loc(kf))
    t = m.func("_MedLogDataslate.to_output_arg")
    chk.saw(m, "_MedLogDataslate.to_output_arg")
    fors = [n for n in walk_no_nested(t) if isinstance(n, ast.For)]
    ok = False
    if len(fors) == 1 and squash(fors[0].iter) == "self._name_to_log_name.items()" and isinstance(fors[0].target, ast.Tuple):
        nm, ln = [e.id for e in fors[0].target.elts]
        body = [squash(s) for s in fors[0].body]
        ok = body == [f"db[{nm}]=db[{ln}].copy()", f"db[{nm}].exp()"]
    chk.ob("C08-R2", "fords.kalmans._MedLogDataslate.to_output_arg", ok, "for each (name, log_name): db[name] = exp(copy of db[log_name])", m.loc(t))
    pr = m.func("_LogDataslate._prepare_log_names")
    src = squash(pr)
    ok = "self._dataslate.rename(name_to_log_name)" in src and "iflog_nameinoutput_names" in src
    chk.ob("C08-R2", "fords.kalmans._LogDataslate._prepare_log_names", ok, "the store's rows are renamed to log names; only output names are converted back", m.loc(pr))
    st = m.func("_StdLogDataslate.to_output_arg")
    ok = squash(st.body[-1]) == "returnself._dataslate.to_databox()" and not any(isinstance(n, ast.Call) and isinstance(n.func, ast.Attribute) and n.func.attr == "exp" for n in ast.walk(st))
    chk.ob("C08-R2", "fords.kalmans._StdLogDataslate.to_output_arg", ok, "standard deviations stay in logs (no exp of a std)", m.loc(st))


def rule_r3(chk):
    chk.rule("C08-R3", "the output store's transform is solution_v.Ua and the model producer reads Ta, Pa, Ka, Za of the same solution "
             "object (the triangular representation), with H and D of the measurement block; the store's squid is the filter's squid", floor=5)
    m = chk.repo.mod(KMOD)
    kf = m.func("kalman_filter")
    ov = assign_value(kf, "output_store_v")
    if isinstance(ov, ast.IfExp):
        ov = ov.body if isinstance(ov.body, ast.Call) else ov.orelse
    kw = {k.arg: squash(k.value) for k in getattr(ov, "keywords", [])}
    chk.ob("C08-R3", "fords.kalmans.kalman_filter[store transform]", kw.get("transform") == "solution_v.Ua" if ov is not None else None,
           f"transform={kw.get('transform')}", m.loc(kf))
    chk.ob("C08-R3", "fords.kalmans.kalman_filter[store squid/incidence]", (kw.get("squid") == "squid" and kw.get("measurement_incidence") == "y1_incidence_array") if ov is not None else None,
           f"squid={kw.get('squid')}, measurement_incidence={kw.get('measurement_incidence')}", m.loc(kf))
    ps = assign_value(kf, "partial_generate_period_system")
    kw2 = {k.arg: squash(k.value) for k in getattr(ps, "keywords", [])}
    chk.ob("C08-R3", "fords.kalmans.kalman_filter[system solution]", kw2.get("solution_v") == "solution_v" if ps is not None else None,
           f"period system built from solution_v={kw2.get('solution_v')}", m.loc(kf))
    sv = assign_value(kf, "solution_v")
    chk.ob("C08-R3", "fords.kalmans.kalman_filter[deviation flag]", squash(sv) == "model_v._gets_solution(deviation=deviation)" if sv is not None else None,
           f"solution_v = {unparse(sv) if sv is not None else '?'}", m.loc(kf))
    inc = assign_value(kf, "y1_incidence_array")
    chk.ob("C08-R3", "fords.kalmans.kalman_filter[incidence]", squash(inc) == "~_np.isnan(y1_array)" if inc is not None else None,
           "the incidence used to expand y is the NaN pattern of the (logged) measurement array", m.loc(kf))
    sm = chk.repo.mod(SMOD)
    f = sm.func("_generate_period_system")
    chk.saw(sm, "_generate_period_system")
    want = {"T": "solution_v.Ta", "P": "solution_v.Pa", "K": "solution_v.Ka", "U": "solution_v.Ua"}
    got = {k: squash(assign_value(f, k)) if assign_value(f, k) is not None else None for k in want}
    chk.ob("C08-R3", "simultaneous._kalmans._generate_period_system[triangular matrices]", got == want, f"{got}", sm.loc(f))
    z = assign_value(f, "Z")
    ok = isinstance(z, ast.Subscript) and squash(z.value) == "solution_v.Za"
    chk.ob("C08-R3", "simultaneous._kalmans._generate_period_system[Z]", ok if z is not None else None, f"Z = {unparse(z) if z is not None else '?'}", sm.loc(f))
    hd = {k: (squash(assign_value(f, k).value) if isinstance(assign_value(f, k), ast.Subscript) else None) for k in ("H", "D")}
    chk.ob("C08-R3", "simultaneous._kalmans._generate_period_system[H, D]", hd == {"H": "solution_v.H", "D": "solution_v.D"}, f"{hd}", sm.loc(f))
    # store(): transform applied as transform[rhs_indexes, :] @ array
    st = m.func("_LogDataslate.store")
    src = squash(st)
    ok = "array=transform[rhs_indexes,:]@array" in src and "array=array[rhs_indexes]" in src and "self._dataslate._variants[0].data[lhs_indexes]=array" in src
    chk.ob("C08-R3", "fords.kalmans._LogDataslate.store", ok, "xi = U[curr rows, :] @ alpha, or plain row selection without a transform", m.loc(st))


def rule_r10(chk, rid="C08-R10"):
    chk.rule(rid, "every transition variable that a measurement equation reads, at whatever lag, is an element of the state vector: "
             "_adjust_for_measurement_equations followed by _create_system_transition_vector evaluated finitely on token sets with "
             "contemporaneous, once- and twice-lagged measurement incidence - each measurement token (q, s) of a transition variable is in "
             "the resulting vector, and the vector still spans min_shift+1 .. max_shift of the transition equations' own tokens",
             floor=4, shape_independent=True)
    from .. import fin
    dm = chk.repo.mod("irispie.fords.descriptors")
    im = chk.repo.mod("irispie.incidences.main")
    adj = dm.func("_adjust_for_measurement_equations")
    vec = dm.func("_create_system_transition_vector")
    shifts = im.func("get_some_shift_by_quantities")
    for q_ in ("_adjust_for_measurement_equations", "_create_system_transition_vector"):
        chk.saw(dm, q_)
    chk.saw(im, "get_some_shift_by_quantities")

    class _Tok(fin.FinObj):
        def __init__(self, qid, shift):
            super().__init__(qid=qid, shift=shift)
        def shifted(self, by):
            return _Tok(self.qid, self.shift + by)
        def __eq__(self, o):
            return isinstance(o, _Tok) and (self.qid, self.shift) == (o.qid, o.shift)
        def __hash__(self):
            return hash((self.qid, self.shift))
        def __repr__(self):
            return f"x{self.qid}{{{self.shift}}}"
    MEAS, TRAN = "measurement equation", "transition equation"
    kinds = {0: "tv", 1: "tv", 2: "tv", 5: "mv", 6: "ms"}
    env = {"EquationKind.MEASUREMENT_EQUATION": MEAS, "EquationKind.TRANSITION_EQUATION": TRAN, "QuantityKind.TRANSITION_VARIABLE": ("tv",),
           "QuantityKind.MEASUREMENT_VARIABLE": ("mv",)}
    funcs = dict(fin.STDLIB_FUNCS)
    funcs["Token"] = _Tok
    funcs["_incidence.get_some_shift_by_quantities"] = lambda toks, something: fin.run_function(shifts, {params(shifts)[0]: list(toks), params(shifts)[1]: something}, funcs, env)
    cases = (
        ("lag equal to the deepest transition lag", {(0, 0), (0, -1), (1, 0)}, {(5, 0), (0, -1), (6, 0)}),
        ("lag of a variable without transition lags", {(0, 0), (1, 0), (1, 1)}, {(5, 0), (0, 0), (0, -1)}),
        ("lag beyond the deepest transition lag", {(0, 0), (0, -1), (1, 0)}, {(5, 0), (0, -3), (1, -1)}),
        ("contemporaneous only", {(0, 0), (0, -2), (1, 0), (2, 1), (2, 0)}, {(5, 0), (0, 0), (2, 0)}),
        ("lag covered by the transition equations", {(0, 0), (0, -2), (1, 0)}, {(5, 0), (0, -1)}),
    )
    for label, tran, meas in cases:
        key = f"fords.descriptors._adjust_for_measurement_equations[{label}]"
        tt = {_Tok(*x) for x in tran}
        eqs = [fin.FinObj(kind=TRAN, incidence=tuple(sorted(tt, key=lambda t: (t.qid, t.shift)))), fin.FinObj(kind=MEAS, incidence=tuple(_Tok(*x) for x in sorted(meas)))]
        try:
            adjusted = fin.run_function(adj, dict(zip(params(adj), (set(tt), eqs, kinds))), funcs, env)
            vector = list(fin.run_function(vec, {params(vec)[0]: adjusted}, funcs, env))
        except (fin.NotFinite, fin.Raised, TypeError, AttributeError, KeyError) as ex:
            chk.undecided(rid, key, f"not finitely evaluable: {type(ex).__name__}: {ex}", dm.loc(adj))
            continue
        missing = [t for t in (_Tok(*x) for x in sorted(meas)) if kinds[t.qid] == "tv" and t not in vector]
        # the transition equations' own needs are still met
        own = [_Tok(q, s) for q in {t.qid for t in tt} for s in range(min(min(t.shift for t in tt if t.qid == q), -1) + 1, max(t.shift for t in tt if t.qid == q) + 1)]
        lost = [t for t in own if t not in vector]
        bad = (f"measurement equations read {missing} but the state vector is {sorted(vector, key=lambda t: (t.qid, -t.shift))}: the derivative has no column in Z "
               "and is silently dropped" if missing else f"the state vector lost {lost}, which the transition equations need" if lost else None)
        chk.ob(rid, key, bad is None, bad or f"state vector {sorted(vector, key=lambda t: (t.qid, -t.shift))} holds every transition variable the measurement equations read",
               dm.loc(adj), sure=True)


def run(chk):
    from . import c03 as _c03
    chk.guard(_c03.rule_r14, chk, rid="C08-R11")
    from . import c01 as _c01b
    chk.guard(_c01b.rule_r11, chk, rid="C08-R12")
    chk.guard(rule_r10, chk)
    chk.guard(rule_r1, chk)
    chk.guard(rule_r2, chk)
    chk.guard(rule_r3, chk)
    from . import c01, c03
    chk.guard(c03.rule_r7, chk, rid="C08-R4")
    chk.guard(c01.rule_r6, chk, rid="C08-R5")
    chk.guard(c03.rule_r10, chk, rid="C08-R8")
    from .. import variants
    chk.guard(variants.apply, chk, "C08-R6", [("irispie.fords.kalmans", "kalman_filter")])
    from .. import gens
    chk.guard(gens.apply, chk, "C08-R7", {"fords"}, 3, "per-period or per-variant work fed from an exhausted iterator is silently skipped")
    from .. import unused as _unused
    chk.guard(_unused.apply, chk, "C08-R91")
    from .. import basis as _basis
    chk.guard(_basis.apply, chk, "C08-R9")
    from .. import args as _args
    chk.guard(_args.apply, chk, "C08-R90", {'fords', 'simultaneous'}, 1)
    chk.assumptions = [
        "that smoothed means reproduce data and equations is numerical: NOT decided",
        "Solution.Ua/Ta/Pa/Ka/Za form one consistent triangular representation (C01)",
    ]

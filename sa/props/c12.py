"""
C12 — aggregation / disaggregation respect calendar membership.

  R1  regular -> regular: window from start-of-year to end-of-year, reshaped by src // tgt, new start = (start year, 1)
  R2  daily -> regular: slice [to_daily(start) - base, to_daily(end) - base + 1) with the base of the extracted window
  R3  method table: first -> itemgetter(0), last -> itemgetter(-1), mean/sum/prod bound to NaN-propagating callables;
      discard_missing filters before the call; empty group -> NaN
  R4  disaggregation: offsets 0, factor//2, factor-1 with stride factor on both sides; start from to_ymd('start')
  R5  guards reject conversion in the wrong direction and unknown frequencies
  R6  a constant group size (a.value // b.value) is used only between regular frequencies
"""
from __future__ import annotations

import ast
from fractions import Fraction

from .. import alg, fin
from ..alg import Undecided, sym, num, add, sub
from ..core import AnalysisError, dotted, unparse, params, walk_no_nested, strip_docstring, literal

MOD = "irispie.series._conversions"
NAN_PROPAGATING = {"_st.mean", "_builtin_sum", "_np.prod", "_np.sum", "_np.mean", "sum", "_st.fmean"}
NAN_IGNORING = {"_np.nansum", "_np.nanmean", "_np.nanprod", "_np.nanmin", "_np.nanmax"}


def _env(f):
    return {n.targets[0].id: n.value for n in walk_no_nested(f) if isinstance(n, ast.Assign) and len(n.targets) == 1 and isinstance(n.targets[0], ast.Name)}


def run(chk):
    m = chk.repo.mod(MOD)
    chk.rule("C12-R1", "regular->regular aggregation: data window [start.create_soy(), end.create_eoy()], rows reshaped (-1, factor) with "
             "factor = source periods-per-year // target periods-per-year, new start = target(start year, 1)", floor=5)
    f = m.func("_aggregate_regular_to_regular")
    chk.saw(m, "_aggregate_regular_to_regular")
    e = _env(f)
    src = unparse(f).replace(" ", "")
    chk.ob("C12-R1", "series._conversions._aggregate_regular_to_regular[window start]", unparse(e.get("start_date", ast.Constant(0))) == "self.start_date.create_soy()",
           f"start_date = {unparse(e.get('start_date', ast.Constant(0)))}", m.loc(f))
    chk.ob("C12-R1", "series._conversions._aggregate_regular_to_regular[window end]", unparse(e.get("end_date", ast.Constant(0))) == "self.end_date.create_eoy()",
           f"end_date = {unparse(e.get('end_date', ast.Constant(0)))}", m.loc(f))
    chk.ob("C12-R1", "series._conversions._aggregate_regular_to_regular[window used]", "self_data=self.get_data_from_until((start_date,end_date))" in src,
           "data are read on exactly that window", m.loc(f))
    ok = None
    try:
        fac = e["factor"]
        ok = isinstance(fac, ast.BinOp) and isinstance(fac.op, ast.FloorDiv) and unparse(fac.left) == "self.frequency.value" \
            and unparse(fac.right) in ("target_freq", "target_freq.value") and unparse(e["target_freq"]) == "new_dater_class.frequency"
    except KeyError:
        ok = False
    chk.ob("C12-R1", "series._conversions._aggregate_regular_to_regular[factor]", ok, f"factor = {unparse(e.get('factor', ast.Constant(0)))}", m.loc(f))
    chk.ob("C12-R1", "series._conversions._aggregate_regular_to_regular[reshape]", "data_variant.reshape((-1,factor))" in src and "fordata_variantinself_data.T" in src,
           "each variant is cut into consecutive groups of `factor` rows", m.loc(f))
    ok = unparse(e.get("new_start_date", ast.Constant(0))).replace(" ", "") == "new_dater_class.from_year_segment(start_year,1)" \
        and unparse(e.get("start_year", ast.Constant(0))) == "self.start_date.get_year()"
    chk.ob("C12-R1", "series._conversions._aggregate_regular_to_regular[new start]", ok, "first target period of the start year", m.loc(f))

    chk.rule("C12-R2", "daily->regular aggregation: per target period t the slice is [t.to_daily('start') - base, t.to_daily('end') - base + 1) "
             "where base is the first day of the extracted window (start-of-year of the first observation)", floor=4)
    g = m.func("_aggregate_daily_to_regular")
    chk.saw(m, "_aggregate_daily_to_regular")
    e = _env(g)
    lam = e.get("get_slice_func")
    ok1 = ok2 = okb = None
    if isinstance(lam, ast.Lambda) and isinstance(lam.body, ast.Call) and dotted(lam.body.func) == "slice" and len(lam.body.args) == 2:
        t = lam.args.args[0].arg
        def call(node, conv):
            if isinstance(node.func, ast.Attribute) and node.func.attr == "to_daily" and unparse(node.func.value) == t:
                pos = [literal(k.value) for k in node.keywords if k.arg == "position"]
                return sym(f"DAY_{pos[0]}") if pos else None
            return None
        conv = alg.ToIR(call=call)
        try:
            lo, hi = conv(lam.body.args[0]), conv(lam.body.args[1])
            base_syms = (alg.symbols(lo) | alg.symbols(hi)) - {"DAY_start", "DAY_end"}
            okb = len(base_syms) == 1
            base = sym(next(iter(base_syms))) if okb else sym("?")
            ok1 = alg.equal(lo, sub(sym("DAY_start"), base))
            ok2 = alg.equal(hi, add(sub(sym("DAY_end"), base), num(1)))
            bname = next(iter(base_syms)) if okb else None
            okb = okb and unparse(e.get(bname, ast.Constant(0))) == "self.start_date.create_soy()" \
                and unparse(e.get("from_until", ast.Constant(0))).replace(" ", "") == f"({bname},end_date)"
        except Undecided:
            pass
    chk.ob("C12-R2", "series._conversions._aggregate_daily_to_regular[slice start]", ok1, "first day of t relative to the base", m.loc(g))
    chk.ob("C12-R2", "series._conversions._aggregate_daily_to_regular[slice stop end-inclusive]", ok2, "last day of t relative to the base, plus one", m.loc(g))
    chk.ob("C12-R2", "series._conversions._aggregate_daily_to_regular[base is window start]", okb,
           "the subtracted base is the first day of the window the data are extracted on", m.loc(g))
    src = unparse(g).replace(" ", "")
    ok = ("new_start_date=new_dater_class.from_year_segment(start_year,1)" in src and "new_end_date=new_dater_class.from_year_segment(end_year,'end')" in src
          and "end_date=self.end_date.create_eoy()" in src and "fortin_dates.Ranger(new_start_date,new_end_date)" in src
          and "self.iter_own_data_variants_from_until(from_until)" in src)
    chk.ob("C12-R2", "series._conversions._aggregate_daily_to_regular[target span]", ok,
           "target periods run from (start year, 1) to (end year, end) - the same years the window covers", m.loc(g))

    chk.rule("C12-R3", "method table and group evaluation", floor=8)
    tab = m.assign("_AGGREGATION_METHOD_RESOLUTION")
    chk.saw(m, "_AGGREGATION_METHOD_RESOLUTION")
    tv = {literal(k): v for k, v in zip(tab.keys, tab.values)}
    binds = {n.targets[0].id: unparse(n.value) for n in m.tree.body if isinstance(n, ast.Assign) and isinstance(n.targets[0], ast.Name)}
    for key, idx in (("first", "0"), ("last", "-1")):
        v = tv.get(key)
        ok = isinstance(v, ast.Call) and dotted(v.func) in ("_op.itemgetter", "operator.itemgetter") and len(v.args) == 1 and unparse(v.args[0]) == idx
        chk.ob("C12-R3", f"series._conversions._AGGREGATION_METHOD_RESOLUTION[{key}]", ok, f"{key} -> {unparse(v) if v is not None else None}", m.loc(tab))
    for key in ("mean", "sum", "prod"):
        v = tv.get(key)
        name = unparse(v) if v is not None else None
        ok = name in NAN_PROPAGATING and name not in NAN_IGNORING
        if name == "_builtin_sum":
            ok = ok and binds.get("_builtin_sum") == "sum"
        chk.ob("C12-R3", f"series._conversions._AGGREGATION_METHOD_RESOLUTION[{key}]", ok,
               f"{key} -> {name} (a missing member must give a missing value unless discarded)", m.loc(tab))
    for key in ("min", "max"):
        v = tv.get(key)
        name = unparse(v) if v is not None else None
        ok = name in (f"_builtin_{key}", f"_np.{key}", key) and (binds.get(name, key) == key or name.startswith("_np."))
        chk.ob("C12-R3", f"series._conversions._AGGREGATION_METHOD_RESOLUTION[{key}]", ok, f"{key} -> {name}", m.loc(tab))
    w = m.func("_aggregate_within_data")
    chk.saw(m, "_aggregate_within_data")
    src = unparse(w).replace(" ", "")
    wp = params(w)
    ok = (f"if{wp[1]}:{wp[3]}={wp[3]}[~_np.isnan({wp[3]})]" in src.replace("\n", "") and f"return{wp[2]}({wp[3]})if{wp[3]}.size>0else_np.nan" in src)
    chk.ob("C12-R3", "series._conversions._aggregate_within_data", ok, "missing values are dropped only when discard_missing; empty group -> NaN", m.loc(w))
    # the whole reducer by finite evaluation: select picks CALENDAR positions of the group, then missing values are discarded (if asked)
    try:
        NAN = fin.FinVec.NAN
        bad, n_cases = None, 0
        for group in ([1, 2, 3], [NAN, 2, 3], [1, NAN, 3], [NAN, NAN, NAN], [NAN, NAN, 3], [5]):
            for select in (None, [0], [1], [len(group) - 1], [0, len(group) - 1], list(range(len(group)))):
                if select is not None and max(select) >= len(group):
                    continue
                for discard in (False, True):
                    try:
                        got = fin.run_function(w, {wp[0]: select, wp[1]: discard, wp[2]: (lambda v: ("F", tuple(v.items))), wp[3]: fin.FinVec(group)},
                                               funcs=dict(fin.VECTOR_FUNCS), env={"_np.nan": NAN})
                    except fin.Raised as ex:
                        got = ("RAISES", str(ex))
                    n_cases += 1
                    picked = list(group) if select is None else [group[k] for k in select]
                    if discard:
                        picked = [x for x in picked if x != NAN]
                    want = ("F", tuple(picked)) if picked else NAN
                    if got != want:
                        bad = (group, select, discard, got, want)
                        break
                if bad:
                    break
            if bad:
                break
        chk.ob("C12-R3", "series._conversions._aggregate_within_data[select, then discard]", bad is None,
               f"{n_cases} cases (groups with leading / interior / all missing members x selections x discard_missing): the method receives exactly the selected calendar "
               "positions, minus the missing ones when discarding; an empty result is NaN" if bad is None else
               f"group {bad[0]}, select={bad[1]}, discard_missing={bad[2]}: method applied to {bad[3]} (want {bad[4]}): `select` must index positions inside the "
               "low-frequency period, not positions among the non-missing values", m.loc(w), sure=True)
    except (fin.NotFinite, TypeError) as ex:
        chk.undecided("C12-R3", "series._conversions._aggregate_within_data[select, then discard]", f"not evaluable: {type(ex).__name__}: {ex}", m.loc(w))
    # select: positions inside the one-dimensional group; a tuple used as an index addresses axes instead
    sel_p, grp_p = wp[0], wp[3]
    subs = [n for n in walk_no_nested(w) if isinstance(n, ast.Subscript) and unparse(n.value) == grp_p and unparse(n.slice) == sel_p]
    if subs:
        conv = [n for n in walk_no_nested(w) if isinstance(n, ast.Assign) and unparse(n.targets[0]) == sel_p and n.lineno <= subs[0].lineno]
        how = dotted(conv[-1].value.func) if conv and isinstance(conv[-1].value, ast.Call) else None
        ok = False if how == "tuple" else True if how in (None, "list", "_np.array", "_np.asarray", "sorted") else None
        chk.ob("C12-R3", "series._conversions._aggregate_within_data[select]", ok,
               f"{grp_p}[{sel_p}] with {sel_p} = {how or 'the list given'}(...): " + ("a tuple indexes one element per AXIS, so any selection on the 1-D group raises"
                                                                               if ok is False else "a sequence index selects positions within the group"), m.loc(subs[0]))
    a = m.func("Inlay.aggregate")
    chk.saw(m, "Inlay.aggregate")
    src = unparse(a).replace(" ", "")
    ok = "aggregate_within_data_func=_ft.partial(_aggregate_within_data,select,discard_missing,method_func)" in src
    chk.ob("C12-R3", "series._conversions.Inlay.aggregate[partial argument order]", ok,
           "partial(_aggregate_within_data, select, discard_missing, method_func) matches the callee's parameter order "
           f"{wp[:3]}" if ok and wp[:3] == ["select", "discard_missing", "method_func"] else f"callee parameters {wp}", m.loc(a))
    dd = literal(m.assign("_DEFAULT_DISCARD_MISSING"))
    chk.ob("C12-R3", "series._conversions._DEFAULT_DISCARD_MISSING", dd is False, f"default discard_missing = {dd}", m.rel)

    chk.rule("C12-R4", "disaggregation places values at offsets 0 / factor//2 / factor-1 with stride factor (same slice on both sides), "
             "flat repeats each row factor times, start = target.from_ymd(*source_start.to_ymd('start')); offsets lie inside the group", floor=8)
    fl = m.func("_disaggregate_flat")
    chk.saw(m, "_disaggregate_flat")
    src = unparse(fl).replace(" ", "")
    ok = "high_start_date=high_dater_class.from_ymd(*self.start_date.to_ymd(position='start'))" in src
    chk.ob("C12-R4", "series._conversions._disaggregate_flat[start]", ok, "first fine period of the first coarse period", m.loc(fl))
    ok = "factor=high_freq.value//self.frequency.value" in src and "high_data=_np.repeat(self.data,factor,axis=0)" in src and "return(high_start_date,high_data,factor)" in src
    chk.ob("C12-R4", "series._conversions._disaggregate_flat[repeat]", ok, "every row repeated factor times", m.loc(fl))
    for name, off in (("_disaggregate_first", "0"), ("_disaggregate_middle", "factor // 2"), ("_disaggregate_last", "factor - 1")):
        h = m.func(name)
        chk.saw(m, name)
        st = [n for n in walk_no_nested(h) if isinstance(n, ast.Assign) and isinstance(n.targets[0], ast.Subscript) and unparse(n.targets[0].value) == "high_data"]
        ok, detail = False, "no strided store"
        if len(st) == 1 and isinstance(st[0].value, ast.Subscript):
            ls, rs = st[0].targets[0].slice, st[0].value.slice
            same = unparse(ls) == unparse(rs)
            sl = ls.elts[0] if isinstance(ls, ast.Tuple) else ls
            if isinstance(sl, ast.Slice):
                lo = unparse(sl.lower) if sl.lower is not None else "0"
                step = unparse(sl.step) if sl.step is not None else "1"
                try:
                    okoff = alg.equal(alg.parse_expr(lo.replace("//", "/")) if "//" not in lo else alg.sym(lo.replace(" ", "")),
                                      alg.parse_expr(off) if "//" not in off else alg.sym(off.replace(" ", "")))
                except Undecided:
                    okoff = None
                inside = all(0 <= fin.ev(ast.parse(lo, mode="eval").body, {"factor": k}) < k for k in (1, 2, 3, 4, 6, 12))
                ok = None if okoff is None else (same and okoff and step == "factor" and sl.upper is None and inside)
                detail = f"high_data[{unparse(ls)}] = flat[{unparse(rs)}]"
        chk.ob("C12-R4", f"series._conversions.{name}", ok, detail, m.loc(h))
        ok = "high_start_date,flat_high_data,factor=_disaggregate_flat(self,high_dater_class)" in unparse(h).replace(" ", "")
        chk.ob("C12-R4", f"series._conversions.{name}[from flat]", ok, "start, flat data and factor come from _disaggregate_flat in that order", m.loc(h))

    chk.rule("C12-R5", "aggregate rejects a finer or unknown target, disaggregate a coarser or unknown one; equal frequency is a no-op", floor=4)
    # by finite evaluation of the method heads with stand-in frequencies: for every (source, target) pair the call is a no-op (equal),
    # rejected (wrong direction, or either UNKNOWN) or carried out with the period class of the target
    import functools as _functools

    @_functools.total_ordering
    class _Fq(fin.FinObj):
        def __init__(self, value, regular=True):
            super().__init__(value=value, is_regular=regular)
        def __eq__(self, o): return self is o
        def __lt__(self, o): return self.value < o.value
        def __hash__(self): return id(self)
        def __repr__(self): return f"F{self.value}"
    UNK, YEAR, QUART, MONTH, DAY = _Fq(-1, False), _Fq(1), _Fq(4), _Fq(12), _Fq(365, False)
    classes = {YEAR: "YearlyClass", QUART: "QuarterlyClass", MONTH: "MonthlyClass", DAY: "DailyClass"}
    for q, up in (("Inlay.aggregate", False), ("Inlay.disaggregate", True)):
        fn = m.func(q)
        chk.saw(m, q)
        bad_guard = bad_noop = None
        n_ev = 0
        try:
            for src_f in (UNK, YEAR, QUART, MONTH, DAY):
                for tgt_f in (UNK, YEAR, QUART, MONTH):
                    if not up and src_f is DAY and tgt_f is not UNK and False:
                        continue
                    log = []
                    me = fin.FinObj(frequency=src_f, _replace_start_and_values=lambda *a_, **k_: log.append(("replaced",) + a_))
                    worker = lambda s_, cls_, *a_, **k_: (("START", cls_), "DATA", "EXTRA")
                    env = dict(fin.module_constants(m))
                    env.update({st_.name: fin.FuncRef(st_.name) for st_ in m.tree.body if isinstance(st_, ast.FunctionDef)})
                    env.update({"_dates.Frequency.UNKNOWN": UNK, "_dates.Frequency.DAILY": DAY, "_dates.PERIOD_CLASS_FROM_FREQUENCY_RESOLUTION": classes,
                                "_CHOOSE_DISAGGREGATION_METHOD": {"flat": worker}, "_AGGREGATION_METHOD_RESOLUTION": {"mean": "MEAN"},
                                "_DEFAULT_METHOD": "mean", "_DEFAULT_DISCARD_MISSING": False})
                    env.update({"_aggregate_regular_to_regular": (lambda s_, cls_, *a_, **k_: (("START", cls_), "DATA")),
                                "_aggregate_daily_to_regular": (lambda s_, cls_, *a_, **k_: (("START", cls_), "DATA"))})
                    funcs = {"_ft.partial": lambda *a_, **k_: ("partial",) + a_, "_aggregate_regular_to_regular": worker, "_aggregate_daily_to_regular": worker,
                             "isinstance": lambda x_, t_: isinstance(x_, str), "str": str}
                    args = {params(fn)[0]: me, params(fn)[1]: tgt_f}
                    for p_, d_ in list(zip(reversed(params(fn)), reversed(fn.args.defaults))) + [(a_.arg, d_) for a_, d_ in zip(fn.args.kwonlyargs, fn.args.kw_defaults) if d_ is not None]:
                        args.setdefault(p_, fin.ev(d_, {}))
                    if fn.args.kwarg:
                        args[fn.args.kwarg.arg] = {}
                    try:
                        fin.run_function(fn, args, funcs, env)
                        outcome = "done" if log else "no-op"
                    except fin.Raised:
                        outcome = "rejected"
                    n_ev += 1
                    wrong_side = (tgt_f.value < src_f.value) if up else (tgt_f.value > src_f.value)
                    want = "no-op" if tgt_f is src_f else "rejected" if (tgt_f is UNK or src_f is UNK or wrong_side) else "done"
                    if outcome != want:
                        msg = f"source {src_f!r}, target {tgt_f!r} (F-1 = UNKNOWN): the conversion is {outcome}, expected {want}"
                        if want == "no-op":
                            bad_noop = bad_noop or msg
                        else:
                            bad_guard = bad_guard or msg
                    elif outcome == "done" and log[0][1] != ("START", classes[tgt_f]):
                        bad_guard = bad_guard or f"source {src_f!r}, target {tgt_f!r}: the result is dated with {log[0][1]}, not with the period class of the target"
        except (fin.NotFinite, TypeError, AttributeError, KeyError, IndexError) as ex:
            chk.undecided("C12-R5", f"series._conversions.{q}[direction guard]", f"not finitely evaluable: {type(ex).__name__}: {ex}", m.loc(fn))
            continue
        chk.ob("C12-R5", f"series._conversions.{q}[direction guard]", bad_guard is None,
               bad_guard or f"raises when the target is on the wrong side of the source frequency or either is UNKNOWN ({n_ev} pairs)", m.loc(fn), sure=True)
        chk.ob("C12-R5", f"series._conversions.{q}[same frequency]", bad_noop is None, bad_noop or "returns unchanged when the frequencies are equal", m.loc(fn), sure=True)

    chk.rule("C12-R6", "every routine that groups by a constant factor a.value // b.value is reached only with both frequencies regular "
             "(is_regular guard or calendar-based dispatch in its caller)", floor=2)
    src_a = unparse(a).replace(" ", "")
    ok = "ifself.frequency.is_regular:aggregate_func=_aggregate_regular_to_regular" in src_a.replace("\n", "") \
        and "elifself.frequencyis_dates.Frequency.DAILY:aggregate_func=_aggregate_daily_to_regular" in src_a.replace("\n", "")
    chk.ob("C12-R6", "series._conversions.Inlay.aggregate[dispatch]", ok,
           "constant-factor path only for a regular source (target is coarser, hence regular); daily source takes the calendar path", m.loc(a))
    d = m.func("Inlay.disaggregate")
    src_d = unparse(d).replace(" ", "")
    guarded = "is_regular" in src_d or "Frequency.DAILY" in src_d
    chk.ob("C12-R6", "series._conversions.Inlay.disaggregate[DAILY target]", guarded,
           "no is_regular guard or calendar path for the target: a DAILY target is grouped by the constant 365 // f days per period"
           if not guarded else "target regularity is tested before the constant-factor methods", m.loc(d))
    chk.guard(rule_r7, chk)
    chk.guard(rule_r8, chk)
    from .. import unused as _unused
    chk.guard(_unused.apply, chk, "C12-R91")
    from .. import args as _args
    chk.guard(_args.apply, chk, "C12-R90", {'series'}, 1)
    chk.assumptions = [
        "equal-sized nested calendar partitions between regular frequencies (C09-R4)",
        "statistics.mean / builtin sum / numpy.prod propagate NaN",
        "round-trip identities and arip (a KKT system) are numerical and not decided",
    ]


ARIP = "irispie.series.arip"


def rule_r7(chk):
    """arip: the autoregressive parameters are the average change per ELAPSED low-frequency period."""
    from ..alg import div, pow_, Undecided
    chk.rule("C12-R7", "arip parameters: _get_first_last_observations returns the values at the first and last finite positions and the "
             "number of periods elapsed between them (last position - first position, so interior gaps count); rho = (last/first)**(1/n) "
             "and c = (last-first)/n are converted with convert_roc / convert_diff from the low to the high frequency; the aggregation "
             "vectors sum/mean/first/last have the documented weights", floor=8)
    m = chk.repo.mod(ARIP)
    f = m.func("_get_first_last_observations")
    chk.saw(m, "_get_first_last_observations")
    wf = None
    for n in walk_no_nested(f):
        if isinstance(n, ast.Assign) and "isfinite" in unparse(n.value):
            wf = n
    ok = wf is not None and unparse(wf.value).replace(" ", "").rstrip(",)") .startswith("_np.nonzero(_np.isfinite(low_data_v")
    tgt = wf.targets[0] if wf is not None else None
    wname = tgt.elts[0].id if isinstance(tgt, ast.Tuple) and isinstance(tgt.elts[0], ast.Name) else (tgt.id if isinstance(tgt, ast.Name) else None)
    chk.ob("C12-R7", "series.arip._get_first_last_observations[finite positions]", ok if wname else None,
           f"{wname} = positions of the finite low-frequency observations", m.loc(f))
    branch = [n for n in walk_no_nested(f) if isinstance(n, ast.If) and wname and wname in unparse(n.test)]
    if not branch or not wname:
        chk.undecided("C12-R7", "series.arip._get_first_last_observations[branch]", "shape not recognised", m.loc(f))
        return

    def subscript(node, conv):
        t = unparse(node).replace(" ", "")
        for k in ("0", "-1"):
            if t == f"{wname}[{k}]":
                return sym(f"pos[{k}]")
            if t == f"low_data_v[{wname}[{k}]]":
                return sym(f"val[{k}]")
        return None
    env = {}
    conv = alg.ToIR(env=env, subscript=subscript)
    try:
        for st in branch[0].body:
            if isinstance(st, ast.Assign) and isinstance(st.targets[0], ast.Name):
                env[st.targets[0].id] = conv.conv(st.value)
                conv.env = env
        ret = single_ret(f)
        names = [e.id for e in ret.elts]
        got = [env[nm] for nm in names]
        want = [sym("val[0]"), sym("val[-1]"), sub(sym("pos[-1]"), sym("pos[0]"))]
        labels = ["first value", "last value", "elapsed periods"]
        for lab, g, w in zip(labels, got, want):
            chk.ob("C12-R7", f"series.arip._get_first_last_observations[{lab}]", alg.equal(g, w), f"{lab} = {alg.show(g)} (want {alg.show(w)})", m.loc(f), sure=True)
    except (Undecided, KeyError, AttributeError) as ex:
        chk.undecided("C12-R7", "series.arip._get_first_last_observations[values]", f"not normalisable: {ex}", m.loc(f))
    # rho and constant
    for cls, meth, want_fn, neutral, convf in (("_RateForm", "get_rho", lambda a, b, n: pow_(div(b, a), div(num(1), n)), 1, "_conversions.convert_roc"),
                                                ("_DiffForm", "get_constant", lambda a, b, n: div(sub(b, a), n), 0, "_conversions.convert_diff")):
        g = m.methods(cls).get(meth)
        if g is None:
            raise AnalysisError(f"anchor vanished: arip.{cls}.{meth}")
        chk.saw(m, f"{cls}.{meth}")
        unp = [n for n in walk_no_nested(g) if isinstance(n, ast.Assign) and isinstance(n.targets[0], ast.Tuple) and "_get_first_last_observations" in unparse(n.value)]
        ife = [n for n in walk_no_nested(g) if isinstance(n, ast.Assign) and isinstance(n.value, ast.IfExp)]
        r = single_ret(g)
        if not unp or not ife or not isinstance(r, ast.Call):
            chk.undecided("C12-R7", f"series.arip.{cls}.{meth}", "shape not recognised", m.loc(g))
            continue
        a, b, n_ = [e.id for e in unp[0].targets[0].elts]
        try:
            got = alg.ToIR().conv(ife[0].value.body)
            ok = alg.equal(got, want_fn(sym(a), sym(b), sym(n_))) and unparse(ife[0].value.test) == n_ and literal(ife[0].value.orelse) == neutral
            chk.ob("C12-R7", f"series.arip.{cls}.{meth}[average change]", ok,
                   f"{ife[0].targets[0].id} = {alg.show(got)} if {unparse(ife[0].value.test)} else {unparse(ife[0].value.orelse)}", m.loc(g), sure=True)
        except Undecided as ex:
            chk.undecided("C12-R7", f"series.arip.{cls}.{meth}[average change]", str(ex), m.loc(g))
        args = [unparse(x) for x in r.args]
        ok = dotted(r.func) == convf and args == [ife[0].targets[0].id, params(g)[0], params(g)[1]]
        chk.ob("C12-R7", f"series.arip.{cls}.{meth}[frequency conversion]", ok, f"returns {unparse(r)[:70]} (low -> high frequency)", m.loc(g))
    # the conversions themselves: a rate of change over one low-frequency period is the high-frequency rate compounded from/to times
    # (exponent from_freq / to_freq, a fraction for low -> high), a difference is spread proportionally (factor from_freq / to_freq)
    from .. import fin
    cm = chk.repo.mod("irispie.series._conversions")

    class _Base(fin.FinObj):
        def __pow__(self, e):
            return ("pow", e)
        def __mul__(self, e):
            return ("mul", e)
        __rmul__ = __mul__
    for fn, opname, label in (("convert_roc", "pow", "exponent"), ("convert_diff", "mul", "factor")):
        g = cm.func(fn)
        chk.saw(cm, fn)
        bad = None
        n_pairs = 0
        try:
            for a in (1, 2, 4, 12, 52, 365):
                for b in (1, 2, 4, 12, 52, 365):
                    got = fin.run_function(g, dict(zip(params(g), (_Base(), a, b))), funcs={"float": lambda x: x, "int": lambda x: x})
                    n_pairs += 1
                    if got != (opname, Fraction(a, b)) and got != (opname, a / b if a % b else a // b):
                        bad = f"{fn}(x, from_freq={a}, to_freq={b}) applies the {label} {got[1] if isinstance(got, tuple) else got} instead of {a}/{b}" \
                              + (" - every low-to-high conversion degenerates" if a < b and isinstance(got, tuple) and got[1] in (0, 1) else "")
                        break
                if bad:
                    break
        except (fin.NotFinite, fin.Raised, TypeError) as ex:
            chk.undecided("C12-R7", f"series._conversions.{fn}", f"not finitely evaluable: {ex}", cm.loc(g))
        else:
            chk.ob("C12-R7", f"series._conversions.{fn}", bad is None, bad or f"{label} is from_freq/to_freq exactly for all {n_pairs} ordered pairs of frequencies", cm.loc(g), sure=True)
    # aggregation vectors, evaluated on n = 1..6
    want = {"sum": lambda n: [1] * n, "mean": lambda n: [Fraction(1, n)] * n, "avg": lambda n: [Fraction(1, n)] * n,
            "first": lambda n: [1] + [0] * (n - 1), "last": lambda n: [0] * (n - 1) + [1]}
    table = m.assign("_CHOOSE_AGGREGATION_VECTOR")
    for k, v in zip(table.keys, table.values):
        key = literal(k)
        g = m.func(unparse(v))
        chk.saw(m, g.name)
        try:
            bad = None
            for n in range(1, 7):
                got = _eval_vec(single_ret(g), {params(g)[0]: n})
                if got != want[key](n):
                    bad = (n, got)
                    break
            chk.ob("C12-R7", f"series.arip._CHOOSE_AGGREGATION_VECTOR[{key}]", bad is None,
                   f"{g.name}: weights as documented for n=1..6" if bad is None else f"{g.name}({bad[0]}) = {bad[1]} (want {want[key](bad[0])})", m.loc(g), sure=True)
        except (fin.NotFinite, KeyError) as ex:
            chk.undecided("C12-R7", f"series.arip._CHOOSE_AGGREGATION_VECTOR[{key}]", str(ex), m.loc(g))


def rule_r8(chk):
    """arip: the bordered (KKT) system is symmetric in its constraint blocks"""
    chk.rule("C12-R8", "arip solves the first-order conditions of 'minimise the criterion subject to aggregation and target constraints': the "
             "matrix is [[F, A'], [A, 0]], so the multiplier column of each constraint is (a non-zero multiple of) the transpose of its constraint row - for "
             "aggregation constraints both carry the aggregation weights, for targets both are unit vectors (finite evaluation with "
             "the checker's exact matrix model, every low period, weights sum / mean / first / last and a custom vector); the "
             "multiplier columns and constraint rows are stacked in the same order; F = K'K with K the rows of the AR criterion", floor=8)
    m = chk.repo.mod(ARIP)
    fs = {q: m.func(q) for q in ("_create_multiplier_column", "_create_aggregation_row", "_create_target_column", "_create_target_row", "_create_basic_system_matrices")}
    for q in fs:
        chk.saw(m, q)
    funcs = dict(fin.MATRIX_FUNCS)
    env = {"float": float}
    nl, nw = 3, 4
    for label, vec in (("sum", [1] * nw), ("mean", [Fraction(1, nw)] * nw), ("first", [1] + [0] * (nw - 1)), ("last", [0] * (nw - 1) + [1]), ("custom", [2, 0, 1, 3])):
        try:
            bad = None
            for lp in range(nl):
                col = fin.run_function(fs["_create_multiplier_column"], dict(zip(params(fs["_create_multiplier_column"]), (lp, nl, nw, vec))), funcs=funcs, env=env)
                row = fin.run_function(fs["_create_aggregation_row"], dict(zip(params(fs["_create_aggregation_row"]), (lp, nl, nw, vec))), funcs=funcs, env=env)
                if not (isinstance(col, fin.FinMat) and isinstance(row, fin.FinMat) and _proportional(col, row.T)):
                    bad = (lp, col, row)
                    break
            chk.ob("C12-R8", f"series.arip[multiplier column = (aggregation row)' : {label}]", bad is None,
                   f"weights {[str(v) for v in vec]}: column of the multiplier equals the transposed constraint row in each of {nl} low periods" if bad is None else
                   f"weights {[str(v) for v in vec]}, low period {bad[0]}: multiplier column {bad[1].T.rows if isinstance(bad[1], fin.FinMat) else bad[1]} but constraint row "
                   f"{bad[2].rows if isinstance(bad[2], fin.FinMat) else bad[2]}: the stationarity condition is not that of the constrained problem", m.loc(fs["_create_multiplier_column"]), sure=True)
        except (fin.NotFinite, TypeError, KeyError) as ex:
            chk.undecided("C12-R8", f"series.arip[multiplier column = (aggregation row)' : {label}]", f"{type(ex).__name__}: {ex}", m.loc(fs["_create_multiplier_column"]))
    try:
        bad = None
        for hp in range(nl * nw):
            col = fin.run_function(fs["_create_target_column"], dict(zip(params(fs["_create_target_column"]), (hp, nl * nw))), funcs=funcs, env=env)
            row = fin.run_function(fs["_create_target_row"], dict(zip(params(fs["_create_target_row"]), (hp, nl * nw))), funcs=funcs, env=env)
            unit = fin.FinMat([[1 if j == hp else 0 for j in range(nl * nw)]])
            if not (row == unit and col == unit.T):
                bad = hp
                break
        chk.ob("C12-R8", "series.arip[target column = (target row)' = unit vector]", bad is None, f"{nl * nw} high periods" if bad is None else f"high period {bad}", m.loc(fs["_create_target_row"]), sure=True)
    except (fin.NotFinite, TypeError, KeyError) as ex:
        chk.undecided("C12-R8", "series.arip[target column = (target row)' = unit vector]", f"{type(ex).__name__}: {ex}", m.loc(fs["_create_target_row"]))
    # F = K'K, C = K'c with K[i,i+1] = 1/s[i+1], K[i,i] = -rho/s[i+1], c[i] = const/s[i+1]
    try:
        n, rho, const = 5, Fraction(3, 2), Fraction(1, 3)
        sig = [Fraction(k + 2, 1) for k in range(n)]
        got = fin.run_function(fs["_create_basic_system_matrices"], dict(zip(params(fs["_create_basic_system_matrices"]), (n, rho, const, sig))),
                               funcs=dict(funcs, **{"_np.full": lambda shape, v, **kw: fin.FinMat([[v] * shape[1] for _ in range(shape[0])])}), env=env)
        K = fin.FinMat([[(Fraction(1) / sig[i + 1]) if j == i + 1 else (-rho / sig[i + 1]) if j == i else 0 for j in range(n)] for i in range(n - 1)])
        c = fin.FinMat([[const / sig[i + 1]] for i in range(n - 1)])
        ok = isinstance(got, tuple) and len(got) == 2 and got[0] == K.T @ K and got[1] == K.T @ c
        chk.ob("C12-R8", "series.arip._create_basic_system_matrices", ok,
               "F = K'K and C = K'c for the criterion sum(((x[t] - rho*x[t-1] - const)/sigma[t])**2) (T = 5, exact fractions)" if ok else f"got {got}", m.loc(fs["_create_basic_system_matrices"]), sure=True)
    except (fin.NotFinite, TypeError, KeyError, ZeroDivisionError) as ex:
        chk.undecided("C12-R8", "series.arip._create_basic_system_matrices", f"{type(ex).__name__}: {ex}", m.loc(fs["_create_basic_system_matrices"]))
    # which low periods are fully determined by targets (their aggregation constraint is then dropped): ALL members targeted
    dfl = m.func("_detect_full_low_periods")
    chk.saw(m, "_detect_full_low_periods")
    NAN = fin.FinVec.NAN

    def _el(fn):
        return lambda x: fin.FinMat([[fn(v) for v in r] for r in x.rows]) if isinstance(x, fin.FinMat) else fin.FinVec([fn(v) for v in x.items])

    def _reduce(fn):
        def red(x, axis=None):
            if not isinstance(x, fin.FinMat) or axis != 1:
                raise fin.NotFinite("reduction other than along rows")
            return fin.FinVec([fn(r) for r in x.rows])
        return red

    class _M(fin.FinMat):
        def __invert__(self):
            return _M([[not v for v in r] for r in self.rows])
    vfuncs = {"_np.isfinite": _el(lambda v: v != NAN), "_np.isnan": _el(lambda v: v == NAN), "_np.all": _reduce(all), "_np.any": _reduce(any),
              "_np.where": lambda v: ([i for i, b in enumerate(v.items) if b],), "_np.nonzero": lambda v: ([i for i, b in enumerate(v.items) if b],),
              "_np.logical_not": lambda v: ~v}
    try:
        bad = None
        cases = [([1, 2, NAN, NAN, 5, NAN], 2, [0]), ([NAN] * 6, 2, []), ([1, 2, 3, 4, 5, 6], 3, [0, 1]), ([NAN, 2, 3, NAN, NAN, NAN, 7, 8, 9], 3, [2]), ([1, NAN], 1, [0])]
        for data, nw_, want in cases:
            vec = fin.FinMat([[v] for v in data]); vec.one_d = True
            got = fin.run_function(dfl, dict(zip(params(dfl), (vec, nw_))), funcs=vfuncs, env={})
            got = list(got[0]) if isinstance(got, tuple) else list(got)
            if got != want:
                bad = (data, nw_, got, want)
                break
        chk.ob("C12-R8", "series.arip._detect_full_low_periods", bad is None,
               "a low period is 'fully targeted' only when every one of its high periods has a target (5 cases: full, partial, none)" if bad is None else
               f"targets {bad[0]} with {bad[1]} high periods per low period: fully targeted low periods {bad[2]} (want {bad[3]}): a partly targeted period loses its "
               "aggregation constraint", m.loc(dfl), sure=True)
    except (fin.NotFinite, TypeError, AttributeError) as ex:
        chk.undecided("C12-R8", "series.arip._detect_full_low_periods", f"not evaluable: {type(ex).__name__}: {ex}", m.loc(dfl))
    # stacking order: columns (multipliers, targets) and rows (aggregations, targets) in the same order of constraints
    d = m.func("disaggregate_arip_data")
    chk.saw(m, "disaggregate_arip_data")
    hs = [n for n in ast.walk(d) if isinstance(n, ast.Call) and dotted(n.func) == "_np.hstack" and any(isinstance(a, ast.Starred) for t in n.args if isinstance(t, ast.Tuple) for a in t.elts)]
    vs = [n for n in ast.walk(d) if isinstance(n, ast.Call) and dotted(n.func) == "_np.vstack" and any(isinstance(a, ast.Starred) for t in n.args if isinstance(t, ast.Tuple) for a in t.elts)]
    if len(hs) == 1 and len(vs) == 1:
        cols = [unparse(a.value) for a in hs[0].args[0].elts if isinstance(a, ast.Starred)]
        rows = [unparse(a.value) for a in vs[0].args[0].elts if isinstance(a, ast.Starred)]
        kind = lambda s_: "aggregation" if ("multiplier" in s_ or "aggregation" in s_) else "target" if "target" in s_ else s_
        ok = [kind(c_) for c_ in cols] == [kind(r_) for r_ in rows] == ["aggregation", "target"]
        chk.ob("C12-R8", "series.arip.disaggregate_arip_data[order of constraint blocks]", ok, f"columns {cols}; rows {rows}", m.loc(hs[0]))
    else:
        chk.undecided("C12-R8", "series.arip.disaggregate_arip_data[order of constraint blocks]", "stacking not recognised", m.loc(d))


def _proportional(a, b):
    """a == k * b for one non-zero k (a multiplier may be scaled freely)"""
    if a.shape != b.shape:
        return False
    k = None
    for ra, rb in zip(a.rows, b.rows):
        for x, y in zip(ra, rb):
            if (x == 0) != (y == 0):
                return False
            if y != 0:
                r = Fraction(x) / Fraction(y)
                if k is None:
                    k = r
                elif r != k:
                    return False
    return k is not None and k != 0


def single_ret(f):
    rets = [n for n in walk_no_nested(f) if isinstance(n, ast.Return)]
    if len(rets) != 1:
        raise AnalysisError(f"{f.name}: expected a single return")
    return rets[0].value


def _eval_vec(node, env):
    """list arithmetic with exact fractions: [c]*n, [a]+[b]*k"""
    if isinstance(node, ast.BinOp) and isinstance(node.op, ast.Add):
        return _eval_vec(node.left, env) + _eval_vec(node.right, env)
    if isinstance(node, ast.BinOp) and isinstance(node.op, ast.Mult):
        l, r = node.left, node.right
        if isinstance(l, ast.List):
            return _eval_vec(l, env) * fin.ev(r, env)
        if isinstance(r, ast.List):
            return fin.ev(l, env) * _eval_vec(r, env)
    if isinstance(node, ast.List):
        return [_eval_frac(e, env) for e in node.elts]
    raise fin.NotFinite(f"vector expression {unparse(node)[:40]}")


def _eval_frac(node, env):
    if isinstance(node, ast.BinOp) and isinstance(node.op, ast.Div):
        return Fraction(_eval_frac(node.left, env)) / Fraction(_eval_frac(node.right, env))
    return fin.ev(node, env)

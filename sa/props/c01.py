"""
C01 — first-order solution satisfies the model equations and is the stable one (partial).

  R1  eigenvalue-class predicates partition [0, inf), agree with the QZ ordering selector and with the classifier's
      branch order; the Blanchard-Kahn comparison maps ==, >, < to STABLE, NO_STABLE, MULTIPLE_STABLE
  R2  block slices of the QZ factors and all derived products are dimensionally consistent (abstract shapes)
  R3  logarithmize/delogarithmize are paired on every path of the first-order simulators, and data are read in between
  R4  the deviation solution zeroes exactly the additive constants of the recursions; simulators pass their own flag
  R5  state-vector bookkeeping: leads are sorted first, exactly num_forwards entries are dropped, G is cut at the same count
"""
from __future__ import annotations

import ast
from fractions import Fraction

from .. import alg, dim, fin
from ..core import (tuple_agreement, AnalysisError, dotted, unparse, params, walk_no_nested, strip_docstring, squash, assign_value,
                    assignments, calls_to, returns_of, single_return, tuple_names)
from .c06 import check_pairing

SOL = "irispie.fords.solutions"
SIM = "irispie.fords.simulators"
DSC = "irispie.fords.descriptors"
SHK = "irispie.fords.shock_simulators"
INI = "irispie.fords.initializers"


def _pred_eval(fn: ast.FunctionDef, r: Fraction, tau: Fraction, qz=False):
    """finite evaluation of a predicate closure on modulus r with tolerance tau"""
    ps = params(fn)
    args = {ps[0]: Fraction(1), ps[1]: r} if qz else {ps[0]: r}
    return bool(fin.run_function(fn, args, env={"tolerance": tau}))


def _regions(tau):
    a, b = 1 - tau, 1 + tau
    pts = [a / 2, a, (a + 1) / 2, Fraction(1), (1 + b) / 2, b, b * 2, Fraction(0)]
    return sorted(set(pts))


def rule_r1(chk):
    chk.rule("C01-R1", "finite evaluation of the extracted predicates on every region cut by the thresholds 1-tol and 1+tol (two tolerances): "
             "stable and unit are disjoint, stable|unit equals the ordqz selector on |beta/alpha|, unstable is the complement; the "
             "classifier returns the class each predicate names; the Schur re-sort and the classifier receive the same is_unit_root; "
             "num_unstable ==, >, < num_forwards map to STABLE, NO_STABLE, MULTIPLE_STABLE", floor=12)
    m = chk.repo.mod(SOL)
    fs = m.func("Solution.from_system")
    chk.saw(m, "Solution.from_system")
    sel = m.func("Solution.from_system.is_alpha_beta_stable_or_unit_root")
    stb = m.func("Solution.from_system.is_stable_root")
    unt = m.func("Solution.from_system.is_unit_root")
    cls = m.func("_classify_eigenvalue_stability")
    chk.saw(m, "_classify_eigenvalue_stability")
    for tau in (Fraction(1, 4), Fraction(1, 100)):
        tag = f"[tol={tau}]"
        try:
            rows = []
            for r in _regions(tau):
                s, u, q = _pred_eval(stb, r, tau), _pred_eval(unt, r, tau), _pred_eval(sel, r, tau, qz=True)
                rows.append((r, s, u, q))
            disjoint = all(not (s and u) for _, s, u, _ in rows)
            union_eq = all((s or u) == q for _, s, u, q in rows)
            # monotone: stable region is an initial segment, unstable a final segment (classes are intervals in this order)
            seq = ["S" if s else "U" if u else "X" for _, s, u, _ in rows]
            ordered = "".join(seq) == "".join(sorted(seq, key="SUX".index)) and {"S", "U", "X"} <= set(seq)
            at_one = next((s, u) for r, s, u, _ in rows if r == 1)
            chk.ob("C01-R1", f"fords.solutions.Solution.from_system[stable/unit disjoint]{tag}", disjoint, f"regions {[(str(r), c) for (r, *_), c in zip(rows, seq)]}", m.loc(stb))
            chk.ob("C01-R1", f"fords.solutions.Solution.from_system[stable|unit == QZ selector]{tag}", union_eq,
                   "the block ordqz sorts first is exactly the roots later classified stable or unit" if union_eq else
                   f"differs at |root| in {[str(r) for r, s, u, q in rows if (s or u) != q]}", m.loc(sel))
            chk.ob("C01-R1", f"fords.solutions.Solution.from_system[classes are consecutive intervals]{tag}", ordered, f"class sequence by modulus: {''.join(seq)}", m.loc(unt))
            chk.ob("C01-R1", f"fords.solutions.Solution.from_system[|root| = 1 is a unit root]{tag}", at_one == (False, True), f"(stable, unit) at modulus 1 = {at_one}", m.loc(unt))
        except (fin.NotFinite, StopIteration) as e:
            chk.undecided("C01-R1", f"fords.solutions.Solution.from_system[predicates]{tag}", str(e), m.loc(fs))
    # classifier branch <-> class name
    from ..core import decision_list
    dl = decision_list(cls.body)
    ps = params(cls)
    if dl is None:
        chk.undecided("C01-R1", "fords.solutions._classify_eigenvalue_stability[branches]", "not a decision list of tests and returns", m.loc(cls))
    else:
        branches = [(squash(t) if t is not None else "else", squash(v)) for t, v in dl]
        want = [(f"{ps[1]}(abs_eigenvalue)", "EigenvalueKind.STABLE"), (f"{ps[2]}(abs_eigenvalue)", "EigenvalueKind.UNIT_ROOT"), ("else", "EigenvalueKind.UNSTABLE")]
        ok = branches == want and "stable" in ps[1] and "unit" in ps[2]
        chk.ob("C01-R1", "fords.solutions._classify_eigenvalue_stability[branches]", ok, f"branches {branches}", m.loc(cls))
    ae = assign_value(cls, "abs_eigenvalue")
    chk.ob("C01-R1", "fords.solutions._classify_eigenvalue_stability[modulus]", squash(ae) in (f"_np.abs({ps[0]})", f"abs({ps[0]})") if ae is not None else None,
           "predicates are applied to the modulus of the eigenvalue", m.loc(cls))
    # same predicate objects flow to classifier, Schur sort and ordqz
    c1 = calls_to(fs, "self._classify_eigenvalues_stability")
    c2 = calls_to(fs, "detach_stable_from_unit_roots")
    c3 = calls_to(fs, "_solve_ordqz")
    ok = bool(c1 and c2 and c3) and [squash(a) for a in c1[0].args] == ["is_stable_root", "is_unit_root"] and squash(c2[0].args[1]) == "is_unit_root" \
        and squash(c3[0].args[1]) == "is_alpha_beta_stable_or_unit_root"
    chk.ob("C01-R1", "fords.solutions.Solution.from_system[predicate flow]", ok, "classifier(is_stable_root, is_unit_root), Schur re-sort(is_unit_root), ordqz(selector)", m.loc(fs))
    d = m.func("detach_stable_from_unit_roots")
    sc = calls_to(d, "_sp.linalg.schur")
    ok = len(sc) == 1 and [squash(k.value) for k in sc[0].keywords if k.arg == "sort"] == [params(d)[1]]
    chk.ob("C01-R1", "fords.solutions.detach_stable_from_unit_roots[sort]", ok, "schur(..., sort=<the is_unit_root it was given>)", m.loc(d))
    oq = m.func("_solve_ordqz")
    c = calls_to(oq, "_sp.linalg.ordqz")
    ok = len(c) == 1 and [squash(a) for a in c[0].args] == ["system.A", "system.B"] and [squash(k.value) for k in c[0].keywords if k.arg == "sort"] == [params(oq)[1]]
    ev = assign_value(oq, "eigenvalues")
    ok = ok and ev is not None and "-beta/alpha" in squash(ev)
    un = [n for n in walk_no_nested(oq) if isinstance(n, ast.Assign) and n.value in c]
    ok = ok and bool(un) and tuple_names(un[0].targets[0]) == ["S", "T", "alpha", "beta", "Q", "Z"]
    chk.ob("C01-R1", "fords.solutions._solve_ordqz", ok, "ordqz(A, B, sort=selector) -> (S, T, alpha, beta, Q, Z); eigenvalues = -beta/alpha (same modulus as beta/alpha)", m.loc(oq))
    chk.ob("C01-R1", "fords.solutions.Solution.from_system[unit-root count check]",
           "ifcheck_num_unit_roots!=self.num_unit_roots:raiseUnitRootException" in squash(fs).replace("\n", ""),
           "the Schur count of unit roots is compared with the classifier's count", m.loc(fs))
    # BK comparison
    g = m.func("Solution._classify_system_stability")
    chk.saw(m, "Solution._classify_system_stability")
    res = {}
    for nu, nf in ((1, 1), (2, 1), (0, 1)):
        env = {}
        class _S:  # capture store
            pass
        out = None
        for st in strip_docstring(g.body):
            if isinstance(st, ast.If):
                node = st
                while True:
                    try:
                        t = fin.ev(node.test, {"num_unstable": nu, params(g)[1]: nf})
                    except fin.NotFinite:
                        t = None
                    if t is None:
                        break
                    br = node.body if t else node.orelse
                    if len(br) == 1 and isinstance(br[0], ast.If):
                        node = br[0]
                        continue
                    if br and isinstance(br[0], ast.Assign):
                        out = squash(br[0].value)
                    break
        res[(nu, nf)] = out
    want = {(1, 1): "SystemStabilityKind.STABLE", (2, 1): "SystemStabilityKind.NO_STABLE", (0, 1): "SystemStabilityKind.MULTIPLE_STABLE"}
    chk.ob("C01-R1", "fords.solutions.Solution._classify_system_stability", res == want, f"(num_unstable, num_forwards) -> {res}", m.loc(g))
    nu_ = assign_value(g, "num_unstable")
    chk.ob("C01-R1", "fords.solutions.Solution._classify_system_stability[count]", squash(nu_) == "self.eigenvalues_stability.count(EigenvalueKind.UNSTABLE)" if nu_ is not None else None,
           "num_unstable counts the eigenvalues classified UNSTABLE", m.loc(g))
    c = calls_to(fs, "self._classify_system_stability")
    chk.ob("C01-R1", "fords.solutions.Solution.from_system[BK count argument]", squash(c[0].args[0]) == "descriptor.get_num_forwards()" if c else None,
           "compared with the number of forward-looking variables", m.loc(fs))


def rule_r2(chk):
    chk.rule("C01-R2", "abstract shapes with nb backward, nf forward, nu shocks, ny measurement, nw measurement shocks (distinct primes, two "
             "instantiations): every slice, product and division in the solution functions is conformable and results have the shapes "
             "their consumers expect", floor=10)
    m = chk.repo.mod(SOL)
    for inst in ({"nb": 5, "nf": 3, "nu": 7, "ny": 2, "nw": 11}, {"nb": 3, "nf": 5, "nu": 2, "ny": 7, "nw": 13}) + \
            (({"nb": 11, "nf": 2, "nu": 13, "ny": 17, "nw": 19}, {"nb": 2, "nf": 11, "nu": 17, "ny": 19, "nw": 23}, {"nb": 7, "nf": 13, "nu": 3, "ny": 5, "nw": 2}) if chk.tier == "thorough" else ()):
        nb, nf, nu, ny, nw = (inst[k] for k in ("nb", "nf", "nu", "ny", "nw"))
        n = nb + nf
        tag = f"[nb={nb},nf={nf}]"
        total = 0
        # --- _solve_transition_equations
        f = m.func("_solve_transition_equations")
        chk.saw(m, "_solve_transition_equations")
        sh = dim.Shapes(env={"S": (n, n), "T": (n, n), "Q": (n, n), "Z": (n, n), "system.C": (n,), "system.D": (n, nu),
                             "num_backwards": dim.Int(nb), "num_forwards": dim.Int(nf)})
        errs = []
        for st in strip_docstring(f.body):
            if isinstance(st, ast.Assign) and isinstance(st.value, ast.Call) and (dotted(st.value.func) or "").startswith("descriptor."):
                continue
            if isinstance(st, ast.Assign) and isinstance(st.targets[0], ast.Tuple) and squash(st.value) == "qz_matrixes":
                continue
            sh.stmt(st, lambda mm, s: errs.append((mm, s)))
        want = {"Ug": (nb, nb), "Tg": (nb, nb), "Rg": (nb, nu), "Kg": (nb,), "Xg": (nb, nf), "J": (nf, nf), "Ru": (nf, nu)}
        got = {k: sh.env.get(k) for k in want}
        chk.ob("C01-R2", f"fords.solutions._solve_transition_equations{tag}[conformable]", not errs,
               f"{sh.checks} checks" + (f"; {errs[0][0]} at `{unparse(errs[0][1])[:70]}`" if errs else ""), m.loc(errs[0][1]) if errs else m.loc(f))
        chk.ob("C01-R2", f"fords.solutions._solve_transition_equations{tag}[results]", got == want, f"{got}", m.loc(f))
        ok, d_ = tuple_agreement(tuple_names(single_return(f)), ["Ug", "Tg", "Rg", "Kg", "Xg", "J", "Ru"])
        total += sh.checks
        # --- detach
        g = m.func("detach_stable_from_unit_roots")
        chk.saw(m, "detach_stable_from_unit_roots")
        ok2, d2 = tuple_agreement(tuple_names(single_return(f)), tuple_names(next(a.targets[0] for a in walk_no_nested(g) if isinstance(a, ast.Assign) and isinstance(a.targets[0], ast.Tuple) and squash(a.value) == params(g)[0])))
        chk.ob("C01-R2", f"fords.solutions.detach_stable_from_unit_roots{tag}[unpack]", ok2, d2, m.loc(g))
        sh = dim.Shapes(env={"Ug": (nb, nb), "Tg": (nb, nb), "Rg": (nb, nu), "Kg": (nb,), "Xg": (nb, nf), "J": (nf, nf), "Ru": (nf, nu),
                             "Ta": (nb, nb), "u": (nb, nb)}, funcs={"clip": lambda s, c: s.ev(c.args[0])})
        errs = []
        for st in strip_docstring(g.body):
            if isinstance(st, ast.Assign) and isinstance(st.targets[0], ast.Tuple):
                continue
            sh.stmt(st, lambda mm, s: errs.append((mm, s)))
        want = {"Ua": (nb, nb), "Ra": (nb, nu), "Ka": (nb,), "Xa": (nb, nf)}
        got = {k: sh.env.get(k) for k in want}
        chk.ob("C01-R2", f"fords.solutions.detach_stable_from_unit_roots{tag}", not errs and got == want,
               f"{got}" + (f"; {errs[0][0]}" if errs else ""), m.loc(g))
        total += sh.checks
        # --- square from triangular
        h = m.func("_square_from_triangular")
        chk.saw(m, "_square_from_triangular")
        sh = dim.Shapes(env={"Ua": (nb, nb), "Ta": (nb, nb), "Ra": (nb, nu), "Ka": (nb,), "Xa": (nb, nf)})
        errs = []
        for st in strip_docstring(h.body):
            if isinstance(st, ast.Assign) and isinstance(st.targets[0], ast.Tuple):
                continue
            sh.stmt(st, lambda mm, s: errs.append((mm, s)))
        got = {k: sh.env.get(k) for k in ("T", "R", "K", "X")}
        chk.ob("C01-R2", f"fords.solutions._square_from_triangular{tag}", not errs and got == {"T": (nb, nb), "R": (nb, nu), "K": (nb,), "X": (nb, nf)},
               f"{got}" + (f"; {errs[0][0]}" if errs else ""), m.loc(h))
        total += sh.checks
        # --- measurement
        me = m.func("_solve_measurement_equations")
        chk.saw(m, "_solve_measurement_equations")
        sh = dim.Shapes(env={"system.F": (ny, ny), "system.G": (ny, n), "system.J": (ny, nw), "system.H": (ny,), "Ua": (nb, nb),
                             "num_forwards": dim.Int(nf)}, funcs={"clip": lambda s, c: s.ev(c.args[0])})
        errs = []
        for st in strip_docstring(me.body):
            if isinstance(st, ast.Assign) and isinstance(st.value, ast.Call) and (dotted(st.value.func) or "").startswith("descriptor."):
                continue
            sh.stmt(st, lambda mm, s: errs.append((mm, s)))
        got = {k: sh.env.get(k) for k in ("Z", "H", "D", "Za")}
        chk.ob("C01-R2", f"fords.solutions._solve_measurement_equations{tag}", not errs and got == {"Z": (ny, nb), "H": (ny, nw), "D": (ny,), "Za": (ny, nb)},
               f"{got}" + (f"; {errs[0][0]}" if errs else ""), m.loc(me))
        total += sh.checks
        # --- expansion
        ex = m.func("_get_solution_expansion")
        chk.saw(m, "_get_solution_expansion")
        sh = dim.Shapes(env={"P": (nb, nu), "X": (nb, nf), "J": (nf, nf), "Ru": (nf, nu), "k_minus_1": dim.Int(2)})
        errs = []
        rk = [n_ for n_ in ast.walk(ex) if isinstance(n_, ast.Assign) and unparse(n_.targets[0]) == "Rk"]
        for st in rk:
            sh.stmt(st, lambda mm, s: errs.append((mm, s)))
        chk.ob("C01-R2", f"fords.solutions._get_solution_expansion{tag}", not errs and sh.env.get("Rk") == (nb, nu),
               f"Rk: {sh.env.get('Rk')} (must match P {(nb, nu)})" + (f"; {errs[0][0]}" if errs else ""), m.loc(ex))
        total += sh.checks
        # --- measurement simulation
        sm = chk.repo.mod(SIM)
        ms = sm.func("_simulate_measurement")
        chk.saw(sm, "_simulate_measurement")
        sh = dim.Shapes(env={"Z": (ny, nb), "H": (ny, nw), "D": (ny,), "xi_array": (nb, 17), "w_array": (nw, 17), "t": dim.Int(1),
                             "data_array": (29, 17), "y_qids": (ny,)})
        errs = []
        for n_ in ast.walk(ms):
            if isinstance(n_, ast.For):
                for st in n_.body:
                    sh.stmt(st, lambda mm, s: errs.append((mm, s)))
        chk.ob("C01-R2", f"fords.simulators._simulate_measurement{tag}", not errs and sh.checks >= 3,
               f"{sh.checks} checks on y = Z@xi + H@w + D" + (f"; {errs[0][0]}" if errs else ""), sm.loc(ms))
        total += sh.checks
        chk.extra[f"c01_shape_checks{tag}"] = total
    # from_system unpacks triangular/square/measurement tuples in producer order
    fs = m.func("Solution.from_system")
    for prod, tgt in (("detach_stable_from_unit_roots", None), ("_square_from_triangular", "self.T,self.P,self.K,self.X"),
                      ("_solve_measurement_equations", "self.Z,self.H,self.D,self.Za")):
        if tgt is None:
            a = [n_ for n_ in walk_no_nested(fs) if isinstance(n_, ast.Assign) and squash(n_.value) == "triangular_solution"]
            ret = tuple_names(single_return(m.func(prod)))[:-1]
            got = [x.replace("self.", "") for x in tuple_names(a[0].targets[0])] if a else None
            ok, d_ = tuple_agreement(ret, got, norm=lambda s: s.replace("Ra", "Pa"))
            chk.ob("C01-R2", "fords.solutions.Solution.from_system[triangular unpack]", ok, f"producer {ret}; unpacked {got}: {d_}", m.loc(fs))
        else:
            ret = tuple_names(single_return(m.func(prod)))
            a = [n_ for n_ in walk_no_nested(fs) if isinstance(n_, ast.Assign) and squash(n_.targets[0]).strip("()") == tgt]
            got = [x.replace("self.", "") for x in tuple_names(a[0].targets[0])] if a else None
            ok, d_ = tuple_agreement(ret, got, norm=lambda s: s.replace("R", "P") if s == "R" else s)
            chk.ob("C01-R2", f"fords.solutions.Solution.from_system[{prod} unpack]", ok, f"producer {ret}; unpacked {got}: {d_}", m.loc(fs))


def rule_r3(chk):
    chk.rule("C01-R3", "in simulate_flat, _simulate_conditional and _simulate_measurement every path from frame_ds.logarithmize() to a normal "
             "exit passes frame_ds.delogarithmize(), and the data array is fetched after the logarithmize", floor=6)
    m = chk.repo.mod(SIM)
    for q in ("simulate_flat", "_simulate_conditional", "_simulate_measurement"):
        f = m.func(q)
        chk.saw(m, q)
        is_call = lambda name: (lambda st: isinstance(st, ast.Expr) and isinstance(st.value, ast.Call) and squash(st.value.func) == name)
        check_pairing(chk, "C01-R3", f"fords.simulators.{q}", m, f, is_call("frame_ds.logarithmize"), is_call("frame_ds.delogarithmize"),
                      is_use=lambda st: isinstance(st, ast.Assign) and any(isinstance(n, ast.Call) and squash(n.func) == "frame_ds.get_data_variant" for n in ast.walk(st)),
                      what="logarithmize/delogarithmize of the frame dataslate")
    dm = chk.repo.mod("irispie.dataslates.main")
    a, b = dm.func("Dataslate.logarithmize"), dm.func("Dataslate.delogarithmize")
    ia = squash(assign_value(a, "logly_indexes")) if assign_value(a, "logly_indexes") is not None else None
    ib = squash(assign_value(b, "logly_indexes")) if assign_value(b, "logly_indexes") is not None else None
    ok = ia == ib and ia is not None and "v.logarithmize(logly_indexes" in squash(a) and "v.delogarithmize(logly_indexes" in squash(b)
    chk.ob("C01-R3", "dataslates.main.Dataslate[log/exp same rows]", ok, f"logarithmize over {ia}; delogarithmize over {ib}", dm.loc(a))


def _additive_constants(expr, env):
    """names of plain-name additive terms of an expression, mapped through env (name -> 'solution.X')"""
    terms = []

    def rec(n):
        if isinstance(n, ast.BinOp) and isinstance(n.op, (ast.Add, ast.Sub)):
            rec(n.left); rec(n.right)
        else:
            terms.append(n)
    rec(expr)
    out = set()
    for t in terms:
        if isinstance(t, ast.Name) and t.id in env:
            out.add(env[t.id])
    return out


def rule_r4(chk, rid="C01-R4"):
    chk.rule(rid, "create_deviation_solution copies every slot and zeroes exactly the slots that enter the recursions as additive "
             "constants (K in the transition recursion, D in the measurement equation, Ka in the triangular/initial-condition form); "
             "simulators request the solution with the caller's deviation flag", floor=6)
    m = chk.repo.mod(SOL)
    f = m.func("Solution.create_deviation_solution")
    chk.saw(m, "Solution.create_deviation_solution")
    def _is_zero(v):
        return isinstance(v, ast.Call) and (dotted(v.func) or "").split(".")[-1] in ("zeros_like", "zeros")
    zeroed = {dotted(n.targets[0])[4:] for n in ast.walk(f) if isinstance(n, ast.Assign) and (dotted(n.targets[0]) or "").startswith("new.") and _is_zero(n.value)}
    # the same written as a loop over slot names: for n in ("K", ...): setattr(new, n, zeros_like(...))
    for lp in ast.walk(f):
        if isinstance(lp, ast.For) and isinstance(lp.target, ast.Name) and isinstance(lp.iter, (ast.Tuple, ast.List)) \
                and all(isinstance(e, ast.Constant) and isinstance(e.value, str) for e in lp.iter.elts):
            for c in ast.walk(lp):
                if isinstance(c, ast.Call) and dotted(c.func) == "setattr" and len(c.args) == 3 and unparse(c.args[0]) == "new" \
                        and unparse(c.args[1]) == lp.target.id and _is_zero(c.args[2]):
                    zeroed |= {e.value for e in lp.iter.elts}
    zeroed = sorted(zeroed)
    src = squash(f)
    copies_all = "forninnew.__slots__:setattr(new,n,getattr(self,n,None))" in src.replace("\n", "")
    chk.ob(rid, "fords.solutions.Solution.create_deviation_solution[carries every slot]", copies_all, "all slots are copied before the constants are zeroed", m.loc(f))
    # additive constants found in the recursions
    sm = chk.repo.mod(SIM)
    sf = sm.func("simulate_flat")
    env = {n.targets[0].id: "solution." + dotted(n.value).split(".")[-1] for n in walk_no_nested(sf)
           if isinstance(n, ast.Assign) and isinstance(n.targets[0], ast.Name) and (dotted(n.value) or "").startswith("solution.")}
    rec = [n for n in ast.walk(sf) if isinstance(n, ast.Assign) and unparse(n.targets[0]) == "xi" and isinstance(n.value, ast.BinOp)]
    consts = set()
    for r in rec:
        consts |= _additive_constants(r.value, env)
    ms = sm.func("_simulate_measurement")
    env2 = {}
    for n in walk_no_nested(ms):
        if isinstance(n, ast.Assign) and isinstance(n.targets[0], ast.Name):
            v = n.value.body if isinstance(n.value, ast.IfExp) else n.value
            if (dotted(v) or "").startswith("solution."):
                env2[n.targets[0].id] = "solution." + dotted(v).split(".")[-1]
    for n in ast.walk(ms):
        if isinstance(n, ast.Assign) and isinstance(n.targets[0], ast.Subscript) and isinstance(n.value, ast.BinOp):
            consts |= _additive_constants(n.value, env2)
    im = chk.repo.mod(INI)
    ii = im.func("_initialize_med")
    uses_ka = any((dotted(n) or "") == "solution.Ka_stable" for n in ast.walk(ii))
    if uses_ka and "Ka[" in squash(m.func("Solution.Ka_stable")):
        consts.add("solution.Ka")
    found = sorted(c.split(".")[1] for c in consts)
    chk.ob(rid, "fords.solutions.Solution.create_deviation_solution[zeroed == additive constants]", (zeroed == found) if zeroed else None,
           f"zeroed {zeroed}; additive constants of the recursions {found}" if zeroed else "no zeroing statement recognised", m.loc(f), sure=bool(zeroed) and set(zeroed) < set(found))   # an additive constant left in: cannot be an artefact of under-reading the recursions
    # the deviation solution is a shallow clone: zeroing must re-bind the clone's slots, never write into the arrays it shares with the
    # stored solution (the next ordinary simulation would run without its constants)
    from .. import effects as _fx
    muts = [(a, how, ln) for a, how, ln in _fx.direct_mutations(f)]
    chk.ob(rid, "fords.solutions.Solution.create_deviation_solution[stored solution untouched]", not muts,
           "no store, in-place operator or in-place method reaches an array of self (directly, through an alias, or through the shallow clone)" if not muts
           else f"line {muts[0][2]}: {muts[0][1]} writes into self.{muts[0][0]}, which the stored solution shares with the clone", m.loc(f), sure=True)
    for q in ("simulate_flat", "_simulate_measurement", "_simulate_conditional"):
        g = sm.func(q)
        c = calls_to(g, "model_v._gets_solution")
        ok = len(c) == 1 and [(k.arg, squash(k.value)) for k in c[0].keywords] == [("deviation", "deviation")]
        chk.ob(rid, f"fords.simulators.{q}[deviation flag]", ok if c else None, f"_gets_solution({', '.join(f'{k.arg}={unparse(k.value)}' for k in c[0].keywords) if c else '?'})", sm.loc(g))
    d = assign_value(ms, "D")
    chk.ob(rid, "fords.simulators._simulate_measurement[D]", squash(d) in ("solution.Difnotdeviationelse0", "solution.D") if d is not None else None,
           f"D = {unparse(d) if d is not None else '?'}", sm.loc(ms))
    # initial condition: false initials are zeroed in both modes
    zf = sm.func("zero_false_init_xi")
    from .. import fin as _fin4

    class _Arr(_fin4.FinObj):
        """1-D / 2-D array of labelled cells; a boolean mask or an index list on the first axis selects rows"""
        def __init__(self, rows):
            super().__init__(rows=[list(r) for r in rows])
        def _rows_of(self, k):
            k0 = k[0] if isinstance(k, tuple) else k
            if isinstance(k0, slice):
                return list(range(*k0.indices(len(self.rows))))
            k0 = list(k0)
            if k0 and all(isinstance(x, bool) for x in k0):
                if len(k0) != len(self.rows):
                    raise _fin4.Raised("boolean index did not match")
                return [i for i, x in enumerate(k0) if x]
            return [int(x) for x in k0]
        def __setitem__(self, k, v):
            for i in self._rows_of(k):
                self.rows[i] = [v] * len(self.rows[i])
        def __mul__(self, o):
            # multiplication is not assignment: 0 * x is x's NaN when x is missing, so the product keeps the label
            o = list(o)
            if len(o) != len(self.rows):
                raise _fin4.Raised("operands could not be broadcast together")
            self.rows = [[c if m_ in (1, True) and m_ is not False else f"{float(m_):g}*{c}" for c in r] for r, m_ in zip(self.rows, o)]
            return self
        __imul__ = __mul__
    try:
        bad = None
        for flags in ((True, False, True, False), (False, False), (True, True, True), (False, True, True, False, True)):
            arr = _Arr([[f"xi{i}v{j}" for j in range(2)] for i in range(len(flags))])
            _fin4.run_function(zf, {params(zf)[0]: arr, params(zf)[1]: list(flags)}, {"_np.array": lambda x_, **k_: list(x_), "_np.logical_not": lambda x_: [not y_ for y_ in x_],
                                                                                  "_np.where": lambda x_: ([i for i, y_ in enumerate(x_) if y_],), "_np.nonzero": lambda x_: ([i for i, y_ in enumerate(x_) if y_],)})
            want = [[f"xi{i}v{j}" for j in range(2)] if fl else [0, 0] for i, fl in enumerate(flags)]
            if arr.rows != want:
                bad = f"true initial conditions {flags}: the state becomes {arr.rows}, expected exactly the other elements zeroed: {want}"
                break
        chk.ob(rid, "fords.simulators.zero_false_init_xi", bad is None, bad or "state elements that are not true initial conditions start at zero", sm.loc(zf), sure=True)
    except (_fin4.NotFinite, _fin4.Raised, TypeError, AttributeError, IndexError) as ex:
        chk.undecided(rid, "fords.simulators.zero_false_init_xi", f"not finitely evaluable: {type(ex).__name__}: {ex}", sm.loc(zf))


def rule_r5(chk):
    chk.rule("C01-R5", "tokens are sorted by (-shift, qid) so leads come first; _get_num_forwards counts shift > 0; the solution vector drops "
             "exactly that many leading entries; the measurement loading G is cut at the same count; the system vector spans "
             "min_shift+1..max_shift for every variable", floor=6)
    im = chk.repo.mod("irispie.incidences.main")
    st = im.func("sort_tokens")
    chk.saw(im, "sort_tokens")
    try:
        toks = [fin.FinObj(qid=q_, shift=s_) for q_, s_ in ((2, 0), (0, -1), (1, 1), (0, 1), (1, 0), (0, 0), (2, -2))]
        got = [(t.shift, t.qid) for t in fin.module_funcs(im)["sort_tokens"](list(toks))]
        want = sorted(((t.shift, t.qid) for t in toks), key=lambda x_: (-x_[0], x_[1]))
        chk.ob("C01-R5", "incidences.main.sort_tokens", got == want, "sorted by (-shift, qid): leads first, then by variable" if got == want else
               f"orders (shift, qid) pairs as {got}, expected {want}", im.loc(st), sure=True)
    except (fin.NotFinite, fin.Raised, TypeError, AttributeError) as ex:
        chk.undecided("C01-R5", "incidences.main.sort_tokens", f"not finitely evaluable: {type(ex).__name__}: {ex}", im.loc(st))
    dm = chk.repo.mod(DSC)
    class _Tk(fin.FinObj):
        def __init__(self, qid, shift):
            super().__init__(qid=qid, shift=shift)
        def shifted(self, by):
            return _Tk(self.qid, self.shift + by)
        def __eq__(self, o):
            return isinstance(o, _Tk) and (self.qid, self.shift) == (o.qid, o.shift)
        def __hash__(self):
            return hash((self.qid, self.shift))
        def __repr__(self):
            return f"x{self.qid}{{{self.shift}}}"
    helpers = fin.module_funcs(dm, dict(fin.STDLIB_FUNCS, Token=_Tk, **{
        "_incidence.get_some_shift_by_quantities": lambda toks, something: {q_: something([t.shift for t in toks if t.qid == q_]) for q_ in sorted({t.qid for t in toks})},
        "_incidence.sort_tokens": lambda toks: sorted(toks, key=lambda t: (-t.shift, t.qid))}))
    vectors = ([(0, 1), (0, 0), (1, 0), (0, -1)], [(0, 2), (0, 1), (1, 1), (0, 0), (1, 0)], [(0, 0), (1, 0), (1, -1)], [(0, 0)], [])
    for fname, want_fn, text in (("_get_num_forwards", lambda v: sum(1 for _, s_ in v if s_ > 0), "number of tokens with shift > 0"),
                                 ("_get_num_backwards", lambda v: sum(1 for _, s_ in v if s_ <= 0), "backward = all - forward")):
        g_ = dm.func(fname)
        chk.saw(dm, fname)
        try:
            bad = next((f"{fname}({v}) = {got}, expected {want_fn(v)}" for v in vectors
                        for got in [helpers[fname](tuple(_Tk(*x) for x in v))] if got != want_fn(v)), None)
            chk.ob("C01-R5", f"fords.descriptors.{fname}", bad is None, bad or text, dm.loc(g_), sure=True)
        except (fin.NotFinite, fin.Raised, TypeError, AttributeError) as ex:
            chk.undecided("C01-R5", f"fords.descriptors.{fname}", f"not finitely evaluable: {ex}", dm.loc(g_))
    sv = dm.func("_solution_vector_from_system_vector")
    chk.saw(dm, "_solution_vector_from_system_vector")
    try:
        bad = None
        for v in vectors[:4]:
            toks = tuple(_Tk(*x) for x in v)
            flags = tuple(i % 2 == 0 for i in range(len(v)))
            got = helpers["_solution_vector_from_system_vector"](toks, flags)
            k = sum(1 for _, s_ in v if s_ > 0)
            if (tuple(got[0]), tuple(got[1])) != (toks[k:], flags[k:]):
                bad = f"system vector {list(toks)}: returns {got}, expected the vector and its flags without the {k} leading forward-looking entries"
                break
        chk.ob("C01-R5", "fords.descriptors._solution_vector_from_system_vector", bad is None, bad or "drops exactly num_forwards leading entries from the vector and its initial flags", dm.loc(sv), sure=True)
    except (fin.NotFinite, fin.Raised, TypeError, AttributeError, IndexError) as ex:
        chk.undecided("C01-R5", "fords.descriptors._solution_vector_from_system_vector", f"not finitely evaluable: {ex}", dm.loc(sv))
    cvf = dm.func("_create_system_transition_vector")
    chk.saw(dm, "_create_system_transition_vector")
    try:
        bad = None
        for toks in ([(0, 0), (0, -2), (1, 1), (1, 0)], [(0, 0), (1, 0), (1, 2)], [(0, -1), (0, -3), (2, 0)], [(3, 1), (3, -1)]):
            got = sorted((t.qid, t.shift) for t in helpers["_create_system_transition_vector"]({_Tk(*x) for x in toks}))
            want = sorted((q_, s_) for q_ in {q for q, _ in toks} for s_ in range(min(min(s for q, s in toks if q == q_), -1) + 1, max(s for q, s in toks if q == q_) + 1))
            if got != want:
                bad = f"tokens {toks}: vector {got}, expected each variable at shifts min(min_shift, -1)+1 .. max_shift: {want}"
                break
        chk.ob("C01-R5", "fords.descriptors._create_system_transition_vector", bad is None, bad or "each variable contributes shifts min_shift+1 .. max_shift", dm.loc(cvf), sure=True)
    except (fin.NotFinite, fin.Raised, TypeError, AttributeError, KeyError) as ex:
        chk.undecided("C01-R5", "fords.descriptors._create_system_transition_vector", f"not finitely evaluable: {type(ex).__name__}: {ex}", dm.loc(cvf))
    sm = chk.repo.mod(SOL)
    me = sm.func("_solve_measurement_equations")
    g = assign_value(me, "G")
    ok = g is not None and squash(g) == "system.G[:,num_forwards:]" and squash(assign_value(me, "num_forwards")) == "descriptor.get_num_forwards()"
    chk.ob("C01-R5", "fords.solutions._solve_measurement_equations[G cut]", ok, "measurement loadings on the forward-looking columns are dropped at the same count", sm.loc(me))
    te = sm.func("_solve_transition_equations")
    ok = squash(assign_value(te, "num_stable")) == "num_backwards" and squash(assign_value(te, "num_backwards")) == "descriptor.get_num_backwards()"
    chk.ob("C01-R5", "fords.solutions._solve_transition_equations[num_stable]", ok, "the stable block has one column per backward-looking variable", sm.loc(te))
    ct = calls_to(dm.func("SystemVectors.__init__"), "_incidence.sort_tokens")
    ok = any("_create_system_transition_vector" in squash(c) for c in ct)
    chk.ob("C01-R5", "fords.descriptors.SystemVectors.__init__[sorted]", ok, "the system transition vector is sorted with sort_tokens", dm.rel)
    gc = dm.func("SolutionVectors.get_curr_transition_indexes")
    ok = "(t.qid,i)fori,tinenumerate(self.transition_variables)ifnott.shift" in squash(gc)
    chk.ob("C01-R5", "fords.descriptors.SolutionVectors.get_curr_transition_indexes", ok, "current-dated state elements: (qid, position) for shift 0", dm.loc(gc))


def rule_r11(chk, rid="C01-R11"):
    chk.rule(rid, "the forward expansion is R_0 = P and R_k = -X J^(k-1) Ru for k = 1..forward, whether the memo list is empty, shorter than, "
             "equal to or longer than the requested horizon: _get_solution_expansion evaluated finitely with symbolic matrices "
             "(the memo is only ever extended by the terms that follow its last entry)", floor=4, shape_independent=True)
    from .. import fin
    m = chk.repo.mod(SOL)
    f = m.func("_get_solution_expansion")
    chk.saw(m, "_get_solution_expansion")

    class _S(fin.FinObj):
        """a product of named matrices with a sign; J carries its power"""
        def __init__(self, factors, sign=1):
            super().__init__(factors=tuple(factors), sign=sign, shape=(3, 3), dtype="float64", ndim=2)
        def __matmul__(self, o):
            if not isinstance(o, _S):
                return NotImplemented
            fs = list(self.factors)
            for nm, pw in o.factors:
                if fs and fs[-1][0] == nm == "J":
                    fs[-1] = ("J", fs[-1][1] + pw)
                else:
                    fs.append((nm, pw))
            return _S([x for x in fs if not (x[0] == "J" and x[1] == 0)], self.sign * o.sign)
        def __neg__(self):
            return _S(self.factors, -self.sign)
        def __eq__(self, o):
            return isinstance(o, _S) and (self.factors, self.sign) == (o.factors, o.sign)
        def __hash__(self):
            return hash((self.factors, self.sign))
        def __repr__(self):
            return ("-" if self.sign < 0 else "") + " ".join(nm if pw == 1 else f"{nm}^{pw}" for nm, pw in self.factors)
    P, X, J, Ru = _S([("P", 1)]), _S([("X", 1)]), _S([("J", 1)]), _S([("Ru", 1)])
    term = lambda k: _S([("X", 1)] + ([("J", k - 1)] if k > 1 else []) + [("Ru", 1)], -1)
    funcs = {"_np.linalg.matrix_power": lambda a, k: _S([("J", k)] if k else []) if a == J else (_ for _ in ()).throw(fin.NotFinite("power of another matrix")),
             "_np.array": lambda a, **kw: a, "_np.copy": lambda a: a, "_np.eye": lambda *a, **k: _S([]), "_np.identity": lambda *a, **k: _S([])}
    for have, forward in (((0, 3), (2, 5), (3, 3), (4, 2), (0, 0), (1, 4)) if chk.tier != "thorough" else [(a_, b_) for a_ in range(0, 7) for b_ in range(0, 7)]):
        key = f"fords.solutions._get_solution_expansion[memo of {have}, forward {forward}]"
        memo_list = [term(k) for k in range(1, have + 1)]
        try:
            got = fin.run_function(f, dict(zip(params(f), (memo_list, P, X, J, Ru, forward))), funcs)
        except (fin.NotFinite, fin.Raised, TypeError, AttributeError, IndexError) as ex:
            chk.undecided(rid, key, f"not finitely evaluable: {type(ex).__name__}: {ex}", m.loc(f))
            continue
        want = [P] + [term(k) for k in range(1, forward + 1)]
        bad = None
        if list(got) != want:
            k_bad = next((i for i, (a, b) in enumerate(zip(list(got) + [None] * len(want), want)) if a != b), len(want))
            bad = f"returns {list(got)}; entry {k_bad} must be {want[k_bad] if k_bad < len(want) else 'absent'} (R_k = -X J^(k-1) Ru)"
        elif memo_list[:max(have, forward)] != [term(k) for k in range(1, max(have, forward) + 1)]:
            bad = f"the memo list is left as {memo_list}, which is not the sequence R_1, R_2, ... any more: the next call returns wrong terms"
        chk.ob(rid, key, bad is None, bad or f"R_0..R_{forward} as documented; memo afterwards holds R_1..R_{max(have, forward)}", m.loc(f), sure=True)


def _through_wrappers(m, calls):
    """a call whose arguments are parameters of the enclosing method (a private wrapper) is replaced by one call per call site of the
    wrapper, with the parameters substituted by the actual arguments (one level)"""
    import copy
    out = []
    funcs = dict(m.functions())
    for q, c in calls:
        f = funcs.get(q)
        ps = params(f)[1:] if f is not None else []
        used = {a.id for a in c.args if isinstance(a, ast.Name) and a.id in ps}
        if not used:
            out.append((q, c))
            continue
        name = q.split(".")[-1]
        sites = [(g, x) for g, h in funcs.items() if g != q for x in ast.walk(h)
                 if isinstance(x, ast.Call) and isinstance(x.func, ast.Attribute) and x.func.attr == name and isinstance(x.func.value, ast.Name) and x.func.value.id in ("self", "cls", "klass")]
        if not sites:
            out.append((q, c))
            continue
        for g, site in sites:
            actual = dict(zip(ps, site.args))
            actual.update({k.arg: k.value for k in site.keywords if k.arg})
            new = ast.Call(func=c.func, args=[actual.get(a.id, a) if isinstance(a, ast.Name) else a for a in c.args], keywords=c.keywords)
            ast.copy_location(new, site)
            out.append((g, new))
    return out


def rule_r6(chk, rid="C01-R6"):
    from .. import memo
    chk.rule(rid, "forward expansions are memoised per representation: each memo list handed to _get_solution_expansion is used "
             "with one set of matrices only (square and triangular expansions never share a list), and the memo lists are reset "
             "wherever the matrices they derive from are assigned", floor=3, shape_independent=True)
    memo.self_check()
    m = chk.repo.mod(SOL)
    calls = []
    for q, f in m.functions():
        for c in calls_to(f, "_get_solution_expansion"):
            calls.append((q, c))
            chk.saw(m, q)
    if not calls:
        raise AnalysisError("anchor vanished: calls to _get_solution_expansion")
    calls = _through_wrappers(m, calls)
    for q, ok, detail in memo.memo_arg_findings(calls):
        chk.ob(rid, f"fords.solutions.{q}[memo]", ok, detail, m.loc(dict(calls)[q]))
    # invalidation: any method of Solution that assigns one of the matrices used as inputs must also reset the memo
    inputs = {}
    for q, c in calls:
        memo_attr = squash(c.args[0])
        for a in c.args[1:]:
            t = squash(a)
            if t.startswith("self."):
                inputs.setdefault(t[5:], set()).add(memo_attr[5:] if memo_attr.startswith("self.") else memo_attr)
    for name, f in sorted(m.methods("Solution").items()):
        stored = {n.attr for n in ast.walk(f) if isinstance(n, ast.Attribute) and isinstance(n.ctx, ast.Store) and isinstance(n.value, ast.Name) and n.value.id == "self"}
        # tuple targets are Store too (ast marks elements), so unpacking assignments are covered
        need = set().union(*(inputs[a] for a in stored if a in inputs)) if stored & set(inputs) else set()
        if not need:
            continue
        chk.saw(m, f"Solution.{name}")
        missing = sorted(need - stored)
        # a reset done by the constructor chain counts when this method is only reached from it
        if missing:
            callers = [g for g, h in m.methods("Solution").items() if any(True for _ in calls_to(h, f"self.{name}"))]
            reset_in_callers = all(set(missing) <= {n.attr for n in ast.walk(m.methods("Solution")[g]) if isinstance(n, ast.Attribute) and isinstance(n.ctx, ast.Store)} for g in callers) and bool(callers)
            ok = reset_in_callers
            chk.ob(rid, f"fords.solutions.Solution.{name}[memo reset]", ok,
                   f"assigns {sorted(stored & set(inputs))}; memo(s) {missing} reset by its only caller(s) {callers}" if ok else
                   f"assigns {sorted(stored & set(inputs))} but never resets {missing}: expansions computed from the old matrices are reused", m.loc(f))
        else:
            chk.ok(rid, f"fords.solutions.Solution.{name}[memo reset]", f"assigns {sorted(stored & set(inputs))} and resets {sorted(need)}", m.loc(f))


def run(chk):
    chk.guard(rule_r1, chk)
    chk.guard(rule_r2, chk)
    chk.guard(rule_r3, chk)
    chk.guard(rule_r4, chk)
    chk.guard(rule_r5, chk)
    chk.guard(rule_r6, chk)
    chk.guard(rule_r11, chk)
    from . import c02
    chk.guard(c02.rule_r6, chk, rid="C01-R7", sites=(1,))
    from . import c06
    chk.guard(c06.rule_r7, chk, rid="C01-R8", modules=("irispie.fords.simulators", "irispie.fords.shock_simulators"))
    chk.guard(c06.rule_r8, chk, rid="C01-R12")
    from . import c08 as _c08
    chk.guard(_c08.rule_r10, chk, rid="C01-R13")
    from .. import unused as _unused
    chk.guard(_unused.apply, chk, "C01-R91")
    from .. import basis as _basis
    chk.guard(_basis.apply, chk, "C01-R10")
    from .. import variants as _variants
    chk.guard(_variants.apply_wrappers, chk, "C01-R9", {"simultaneous", "fords", "steadiers", "stacked_time"})
    from .. import args as _args
    chk.guard(_args.apply, chk, "C01-R90", {'fords'}, 1)
    chk.assumptions = [
        "that the formulas built from the blocks are the Blanchard-Kahn solution (signs, factors inside well-shaped products), "
        "saddle-path stability of a given model and equation residuals of simulated paths are numerical: NOT decided",
        "scipy ordqz/schur order the selected block first and return the count of selected roots",
        "0 < tolerance < 1",
    ]

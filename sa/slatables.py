"""
SLATABLES: which input-data items win over the model's own values.

A slatable carries two dictionaries: `fallbacks` (used only when the input databox has no item of that name) and `overwrites` (replace
whatever the databox holds). The options parameters_from_data / shocks_from_data / stds_from_data of simulate / kalman_filter decide,
group by group, where the model's values go: <group>_from_data=True -> fallbacks (data wins), False -> overwrites (model wins).
The builders are evaluated finitely on every combination of the flags with a stand-in model; each group's names must land in exactly
the dictionary its own flag selects - a block keyed on a neighbouring flag lets a databox item named like a parameter silently override
the model.
"""
from __future__ import annotations

import itertools

from . import fin
from .core import params, all_params

GROUP_OF_FLAG = {"parameters_from_data": "parameters", "shocks_from_data": "shocks", "stds_from_data": "stds"}


def _model():
    names = {"VAR": ("x", "y"), "SHK": ("e1", "e2", "ant_e1"), "PAR": ("p1", "p2"), "STD": ("std_e1", "std_e2")}

    def get_names(kind=None, **kw):
        return names.get(kind, sum(names.values(), ()))
    all_names = sum(names.values(), ())
    return fin.FinObj(
        max_lag=-1, max_lead=1, num_variants=2, all_names=all_names, lhs_names=("x", "y"), rhs_only_names=(), residual_names=("e1", "e2", "ant_e1"),
        parameter_names=("p1", "p2"),
        create_qid_to_name=lambda: dict(enumerate(all_names)), create_name_to_description=lambda: {n: "" for n in all_names},
        create_qid_to_logly=lambda: {}, get_names=get_names,
        get_parameters=lambda **kw: {"p1": 1, "p2": 2}, get_stds=lambda **kw: {"std_e1": [1, 1], "std_e2": [1, 1]},
    ), {"parameters": {"p1", "p2"}, "shocks": {"e1", "e2", "ant_e1"}, "stds": {"std_e1", "std_e2"}}


def check_builder(chk, rid, mod, qual):
    f = mod.func(qual)
    chk.saw(mod, qual)
    short = mod.name.replace("irispie.", "")
    flags = [p for p in all_params(f) if p in GROUP_OF_FLAG]
    if not flags:
        from .core import AnalysisError
        raise AnalysisError(f"anchor vanished: no *_from_data option in {mod.name}:{qual}")
    env = {"_quantities.ANY_VARIABLE": "VAR", "_quantities.ANY_SHOCK_OR_SHOCK_VALUE": "SHK", "_quantities.ANY_SHOCK": "SHK", "_quantities.PARAMETER": "PAR",
           "_quantities.ANY_STD": "STD", "_DEFAULT_SHOCK_VALUE": 0, "_DEFAULT_RESIDUAL_VALUE": 0, "Series": "Series"}
    funcs = {"Slatable": lambda: fin.FinObj(fallbacks=None, overwrites=None, output_names=None, databox_names=None), "isinstance": lambda *a: True}
    bad = None
    n = 0
    try:
        for vals in itertools.product((False, True), repeat=len(flags)):
            model, groups = _model()
            args = {params(f)[0]: model}
            args.update(dict(zip(flags, vals)))
            if f.args.kwarg:
                args[f.args.kwarg.arg] = {}
            sl = fin.run_function(f, args, funcs, env)
            n += 1
            fb, ow = set(sl.fallbacks or ()), set(sl.overwrites or ())
            for flag, v in zip(flags, vals):
                g = groups[GROUP_OF_FLAG[flag]]
                right, wrong = (fb, ow) if v else (ow, fb)
                if not g <= right or g & wrong:
                    bad = (f"{', '.join(f'{a}={b}' for a, b in zip(flags, vals))}: the model's {GROUP_OF_FLAG[flag]} {sorted(g)} are in "
                           f"{'overwrites' if v else 'fallbacks'} (fallbacks {sorted(fb)}, overwrites {sorted(ow)}); {flag}={v} asks for "
                           f"{'fallbacks: the input data win' if v else 'overwrites: the model wins'}")
                    break
            if bad:
                break
    except (fin.NotFinite, fin.Raised, TypeError, AttributeError, KeyError) as ex:
        chk.undecided(rid, f"{short}.{qual}[fallbacks / overwrites]", f"not finitely evaluable: {type(ex).__name__}: {ex}", mod.loc(f))
        return
    chk.ob(rid, f"{short}.{qual}[fallbacks / overwrites]", bad is None,
           bad or f"all {n} combinations of {flags}: each group of names lands in the dictionary its own flag selects", mod.loc(f), sure=True)


BUILDERS = (("irispie.simultaneous._slatable_protocols", "_slatable_for_simulate_or_kalman_filter"),
            ("irispie.sequentials._slatable_protocols", "Inlay.slatable_for_simulate"))


def apply(chk, rid, builders=BUILDERS):
    chk.rule(rid, "input data win over the model's own values exactly where the caller says so: in every slatable builder the model's parameters / "
             "shocks (residuals) / stds go to `fallbacks` when <group>_from_data is true and to `overwrites` when it is false, each group by its "
             "own flag - by finite evaluation of the builder on every combination of the flags", floor=len(builders), shape_independent=True)
    for mn, q in builders:
        check_builder(chk, rid, chk.repo.mod(mn), q)

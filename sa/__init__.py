"""Static-analysis machinery for irispie properties C01-C20 (see /verif/DESIGN.md)."""

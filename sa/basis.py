"""
BASIS: the first-order solution exists in two coordinate systems and nothing may mix them.

   square       xi(t)    = T xi(t-1) + K + P u(t) + sum_k R_k v(t+k)         attributes T P K Z X square_expansion
   triangular   alpha(t) = Ta alpha(t-1) + Ka + Pa u(t) + sum_k Ra_k v(t+k)  attributes Ta Pa Ka Za Xa triangular_expansion    (xi = Ua alpha)

A vector computed in one basis and added to a recursion that runs in the other is dimensionally fine (both are num_xi long) and silently
wrong. Two rules:

  (a) one basis per function   every function that reads basis-specific attributes of a solution reads those of ONE basis (the builders
                               that construct both - listed - excepted);
  (b) impact meets recursion   a function that obtains the impact of anticipated shocks from a shock-simulator partial (module alias ->
                               functools.partial(..., get_solution_expansion=Solution.expand_<b>_solution)) feeds a recursion in the
                               same basis: its own solution reads, or those of the period-system generator that receives the impact
                               (a function of the module, or - when the generator is a parameter - the function every caller passes).
"""
from __future__ import annotations

import ast

from .core import dotted, unparse, walk_no_nested, all_params

SQUARE = {"T", "P", "K", "Z", "X", "R", "square_expansion"}
TRIANGULAR = {"Ta", "Pa", "Ka", "Za", "Xa", "Ra", "triangular_expansion"}
BUILDERS = {"Solution.from_system": "constructs both bases", "Solution.create_deviation_solution": "zeroes the constants of both bases",
            "Solution.__init__": "initialises every slot"}


def bases_read(f, in_solution_class=False):
    """{basis: {attr}} of the basis-specific attributes read on solution-like names (or self inside Solution)"""
    got = {}
    for n in ast.walk(f):
        if isinstance(n, ast.Attribute) and isinstance(n.value, ast.Name) and n.attr in SQUARE | TRIANGULAR:
            nm = n.value.id
            if "solution" in nm.lower() or (in_solution_class and nm == "self"):
                got.setdefault("square" if n.attr in SQUARE else "triangular", set()).add(n.attr)
    return got


def module_alias_chain(repo, mod, name, depth=4):
    """follow NAME = <alias>.<attr> / NAME = other at module level; returns (module, value node) of the final definition"""
    for _ in range(depth):
        val = None
        for st in mod.tree.body:
            if isinstance(st, ast.Assign) and len(st.targets) == 1 and isinstance(st.targets[0], ast.Name) and st.targets[0].id == name:
                val = st.value
        if val is None:
            return None
        d = dotted(val)
        if d and "." in d and d.split(".")[0] in mod.aliases and mod.aliases[d.split(".")[0]] in repo.modules and d.count(".") == 1:
            mod = repo.modules[mod.aliases[d.split(".")[0]]]
            name = d.split(".")[1]
            continue
        if d and "." not in d:
            name = d
            continue
        return mod, val
    return None


def expansion_of_partial(val):
    """the Solution expansion method bound into a module-level callable: functools.partial(..., get_solution_expansion=Solution.expand_x)
    or any factory call that is handed exactly one `Solution.expand_*` method (positionally or by keyword)"""
    if not isinstance(val, ast.Call):
        return None
    if (dotted(val.func) or "").split(".")[-1] == "partial":
        for k in val.keywords:
            if k.arg == "get_solution_expansion":
                return dotted(k.value)
    bound = [dotted(a) for a in list(val.args) + [k.value for k in val.keywords]]
    bound = [b for b in bound if b and b.split(".")[-1].startswith("expand_") and "Solution" in b]
    return bound[0] if len(bound) == 1 else None


def apply(chk, rid, floor=12):
    chk.rule(rid, "the square (T P K Z X) and the triangular (Ta Pa Ka Za Xa) form of the first-order solution are never mixed: every function reads "
             "the basis-specific attributes of ONE basis (the builders of both excepted), and the impact of anticipated shocks is computed "
             "with the expansion (expand_square_solution / expand_triangular_solution) of the basis in which the recursion that receives it "
             "runs - simulate_flat and the conditional simulator in the square form, the Kalman filter in the triangular form", floor=floor, shape_independent=True)
    repo = chk.repo
    fbasis = {}
    for m in repo.modules.values():
        top = m.name.split(".")[1] if "." in m.name else m.name
        if top not in ("fords", "simultaneous", "stacked_time", "red_vars"):
            continue
        short = m.name.replace("irispie.", "")
        for q, f in m.functions():
            got = bases_read(f, in_solution_class=q.startswith("Solution."))
            if not got:
                continue
            fbasis[(m.name, q)] = got
            if q in BUILDERS and m.name.endswith("fords.solutions"):
                continue
            chk.saw(m, q)
            chk.ob(rid, f"{short}.{q}[one basis]", len(got) == 1,
                   f"reads {', '.join(sorted(a for v in got.values() for a in v))} ({' and '.join(sorted(got))})" if len(got) == 1 else
                   f"reads {sorted(got.get('square', ()))} of the square form and {sorted(got.get('triangular', ()))} of the triangular form in one computation", m.loc(f), sure=True)
    # (b) impact meets recursion
    sm = repo.mod("irispie.fords.solutions")
    repo.mod("irispie.fords.shock_simulators")         # the partials live here: a change there is a reason for the flows to vanish
    n_flows = 0
    for m in repo.modules.values():
        top = m.name.split(".")[1] if "." in m.name else m.name
        if top not in ("fords", "simultaneous", "stacked_time"):
            continue
        short = m.name.replace("irispie.", "")
        for q, f in m.functions():
            for c in walk_no_nested(f):
                if not (isinstance(c, ast.Call) and isinstance(c.func, ast.Name)):
                    continue
                ch = module_alias_chain(repo, m, c.func.id)
                if ch is None:
                    continue
                meth = expansion_of_partial(ch[1])
                if meth is None:
                    continue
                n_flows += 1
                chk.saw(m, q)
                mq = meth if meth.startswith("Solution.") else "Solution." + meth.split(".")[-1]
                eb = fbasis.get((sm.name, mq))
                if not eb or len(eb) != 1:
                    chk.undecided(rid, f"{short}.{q}[impact basis]", f"expansion {meth} has no single basis", m.loc(c))
                    continue
                impact_basis = next(iter(eb))
                # consumers: the function itself, generators named in it, generators passed in by callers
                consumers = {}
                own = bases_read(f)
                if own:
                    consumers[f"{q} itself"] = own
                names_in_f = {n.id for n in ast.walk(f) if isinstance(n, ast.Name)}
                for (mm, qq), b in fbasis.items():
                    if mm == m.name and qq in names_in_f and qq != q:
                        consumers[qq] = b
                for p in all_params(f):
                    if "period_system" not in p:
                        continue
                    for m2 in repo.modules.values():
                        for q2, f2 in m2.functions():
                            for c2 in ast.walk(f2):
                                if isinstance(c2, ast.Call) and (dotted(c2.func) or "").split(".")[-1] == q.split(".")[-1]:
                                    for k in c2.keywords:
                                        if k.arg == p and isinstance(k.value, ast.Name) and (m2.name, k.value.id) in fbasis:
                                            consumers[f"{m2.name.replace('irispie.', '')}.{k.value.id} (passed as {p})"] = fbasis[(m2.name, k.value.id)]
                if not consumers:
                    chk.undecided(rid, f"{short}.{q}[impact basis]", f"impact computed in the {impact_basis} form; no recursion that receives it was resolved", m.loc(c))
                    continue
                wrong = {k: b for k, b in consumers.items() if set(b) != {impact_basis}}
                chk.ob(rid, f"{short}.{q}[impact basis]", not wrong,
                       f"impact of anticipated shocks from {meth} ({impact_basis}) meets {', '.join(consumers)} ({impact_basis})" if not wrong else
                       f"impact of anticipated shocks is expanded with {meth} ({impact_basis} form) but {next(iter(wrong))} runs on "
                       f"{sorted(a for v in next(iter(wrong.values())).values() for a in v)} ({' and '.join(sorted(next(iter(wrong.values()))))} form)", m.loc(c), sure=True)
    if n_flows == 0:
        from .core import AnalysisError
        raise AnalysisError("anchor vanished: no call of a shock-simulator partial found")

"""
ONCE: a structure that is computed once and cached may depend on the sparsity pattern of its input, never on its values.

A once-block is `if not self.<flag>: ... ; self.<flag> = True` (the flag initialised False in the class). What the block computes from
the method's arguments is kept for every later call, so it has to be the same whatever the arguments' values are at the first call.
For the matrices handled here (scipy.sparse Jacobians whose pattern is fixed by the incidence of the equations) that means:

   structural, allowed    .tocoo() .tocsr() .tocsc() .row .col .indices .indptr .shape .nnz len() slicing, arithmetic on those
   value-dependent        .nonzero() .toarray() .todense() .A .data .eliminate_zeros() .count_nonzero() .any() .all() .max() .min() .sum()
                          _np.nonzero/_np.where/_np.flatnonzero/_np.count_nonzero/_np.any/_np.all/_np.isnan/... of a tainted value,
                          comparisons of a tainted value with a number

Tainted = a parameter of the method (not self) or a local assigned from a tainted expression (fixpoint over the function's assignments).
scipy's `.nonzero()` is the classic trap: it filters out explicitly stored zeros, so a derivative that happens to be 0.0 at the first
iterate drops out of the cached map for good.
"""
from __future__ import annotations

import ast

from .core import dotted, unparse, walk_no_nested, params

VALUE_METHODS = ("nonzero", "toarray", "todense", "eliminate_zeros", "count_nonzero", "any", "all", "max", "min", "sum", "argmax", "argmin",
                 "getnnz_nonstructural", "astype", "tolist", "item")
VALUE_ATTRS = ("A", "data")
VALUE_FUNCS = ("nonzero", "where", "flatnonzero", "count_nonzero", "any", "all", "isnan", "isfinite", "isclose", "allclose", "argwhere", "abs")


def once_blocks(f):
    """[(flag, If node)] in a method"""
    ps = params(f)
    if not ps:
        return []
    s = ps[0]
    out = []
    for n in walk_no_nested(f):
        if isinstance(n, ast.If) and isinstance(n.test, ast.UnaryOp) and isinstance(n.test.op, ast.Not):
            d = dotted(n.test.operand)
            if d and d.startswith(s + ".") and d.count(".") == 1:
                sets = any(isinstance(x, ast.Assign) and any(dotted(t) == d for t in x.targets) and isinstance(x.value, ast.Constant) and x.value.value is True
                           for st in n.body for x in ast.walk(st))
                if sets:
                    out.append((d.split(".", 1)[1], n))
    return out


def tainted_names(f):
    ps = params(f)[1:] + [a.arg for a in f.args.kwonlyargs]
    t = set(ps)
    for _ in range(6):
        before = len(t)
        for n in walk_no_nested(f):
            if isinstance(n, ast.Assign):
                if any(isinstance(x, ast.Name) and x.id in t for x in ast.walk(n.value)):
                    for tg in n.targets:
                        for x in ast.walk(tg):
                            if isinstance(x, ast.Name) and isinstance(x.ctx, ast.Store):
                                t.add(x.id)
        if len(t) == before:
            break
    return t


def _mentions(e, names):
    return any(isinstance(x, ast.Name) and x.id in names for x in ast.walk(e))


STRUCTURAL_ATTRS = ("row", "col", "indices", "indptr", "shape", "nnz", "ndim", "size")


def _structural(e):
    """the expression is derived from the pattern of its base: somewhere along the receiver chain a structural attribute is read
    (coo.row.tolist(), m.indices.astype(int), m.shape[0])"""
    cur = e
    while isinstance(cur, (ast.Attribute, ast.Subscript, ast.Call)):
        if isinstance(cur, ast.Attribute) and cur.attr in STRUCTURAL_ATTRS:
            return True
        cur = cur.func if isinstance(cur, ast.Call) else cur.value
    return False


def value_dependent_uses(block, tainted):
    """[(node, why)] inside the once-block"""
    out = []
    for st in block.body:
        for n in ast.walk(st):
            if isinstance(n, ast.Call) and isinstance(n.func, ast.Attribute):
                d = dotted(n.func) or ""
                if n.func.attr in VALUE_METHODS and _mentions(n.func.value, tainted) and not d.startswith("_np.") and not _structural(n.func.value):
                    out.append((n, f".{n.func.attr}() of {unparse(n.func.value)[:40]} depends on the values at the first call"))
                elif d.split(".")[0] in ("_np", "np", "numpy", "_sp") and n.func.attr in VALUE_FUNCS and any(_mentions(a, tainted) for a in n.args):
                    out.append((n, f"{d}(...) of a value derived from the arguments depends on the values at the first call"))
            elif isinstance(n, ast.Attribute) and n.attr in VALUE_ATTRS and isinstance(n.ctx, ast.Load) and _mentions(n.value, tainted) and not _structural(n.value):
                out.append((n, f".{n.attr} of {unparse(n.value)[:40]} reads the stored values"))
            elif isinstance(n, ast.Compare) and _mentions(n, tainted) and not all(isinstance(o, (ast.Is, ast.IsNot)) for o in n.ops) \
                    and any(isinstance(c, ast.Constant) and isinstance(c.value, (int, float)) and not isinstance(c.value, bool) for c in [n.left] + n.comparators) \
                    and not any(isinstance(x, ast.Call) and dotted(x.func) == "len" for x in ast.walk(n)) \
                    and not any(isinstance(x, ast.Attribute) and x.attr in ("shape", "ndim", "size", "nnz") for x in ast.walk(n)):
                out.append((n, f"comparison {unparse(n)[:50]} of a value derived from the arguments with a number"))
    return out


_EXAMPLE = '''
class T:
    def good(self, jac):
        tail = jac[:, -3:]
        if not self._done:
            coo = tail.tocoo()
            rows = sorted(set(coo.row))
            self._rows = rows
            self._done = True
        return tail
    def bad(self, jac):
        tail = jac[:, -3:]
        if not self._done:
            rows = sorted(set(tail.nonzero()[0]))
            self._rows = rows
            self._done = True
        return tail
    def bad2(self, jac):
        if not self._done:
            self._rows = _np.where(jac.toarray() != 0)[0]
            self._done = True
    def good2(self, jac):
        if not self._done:
            coo = jac.tocoo()
            self._rows = sorted(set(coo.row.tolist()))
            self._n = int(coo.shape[0].item()) if False else len(coo.row)
            self._done = True
    def notonce(self, jac):
        if not self._done:
            x = jac.nonzero()
        return x
'''


def self_check():
    from .core import AnalysisError
    t = ast.parse(_EXAMPLE)
    got = {}
    for f in t.body[0].body:
        bl = once_blocks(f)
        got[f.name] = (len(bl), sum(len(value_dependent_uses(b, tainted_names(f))) for _, b in bl))
    want = {"good": (1, 0), "good2": (1, 0), "bad": (1, 1), "notonce": (0, 0)}
    if any(got[k] != v for k, v in want.items()) or got["bad2"][0] != 1 or got["bad2"][1] < 2:
        raise AnalysisError(f"ONCE self-check failed: {got}")
    return 5


def apply(chk, rid, packages=("fords", "stacked_time", "aldi", "simultaneous", "equators"), floor=1):
    chk.rule(rid, "a structure computed once and cached under a completion flag (if not self.<flag>: ...; self.<flag> = True) is computed from the "
             "sparsity pattern of the method's arguments (.tocoo().row/.col, .indices, .indptr, .shape), never from their values (.nonzero(), "
             ".toarray(), .data, numeric comparisons, _np.where/_np.nonzero/...): a derivative that happens to be exactly zero at the first "
             "evaluation must not drop out of the cached map", floor=floor, shape_independent=True)
    n_ex = self_check()
    n = 0
    for m in chk.repo.modules.values():
        top = m.name.split(".")[1] if "." in m.name else m.name
        if top not in packages:
            continue
        short = m.name.replace("irispie.", "")
        for q, f in m.functions():
            bl = once_blocks(f)
            if not bl:
                continue
            tn = tainted_names(f)
            for flag, b in bl:
                n += 1
                chk.saw(m, q)
                uses = value_dependent_uses(b, tn)
                if uses:
                    node, why = uses[0]
                    chk.bad(rid, f"{short}.{q}[once: {flag}]", f"line {node.lineno}: {why}; the block runs once and its result is reused for every later call", m.loc(node))
                else:
                    chk.ok(rid, f"{short}.{q}[once: {flag}]", f"the once-block reads only the pattern of its inputs ({len(tn)} tainted names tracked)", m.loc(b))
    chk.ok(rid, "self-check", f"embedded example classified as expected ({n_ex} methods); {n} once-block(s) found in {'/'.join(packages)}", "")

"""
FIN: finite-domain evaluation of pure integer / table expressions lifted from the AST.

This is constant folding by the checker's own evaluator over complete finite domains (segments,
months, small integers); no repository code object is created or called. Supported: int arithmetic
(+ - * // % **), comparisons, bool ops, conditional expressions, tuples/lists/dicts and their
comprehensions over range(), subscripts, len/int/abs/min/max/range/divmod, names and dotted names
from an environment, and functions supplied by the caller (e.g. calendar.monthrange as the checker's
own oracle for month lengths).
"""
from __future__ import annotations

import ast
import operator

from .core import dotted, unparse


class NotFinite(Exception):
    pass


class Raised(Exception):
    """the evaluated function executed a `raise` statement"""


class FinObj:
    """a record the evaluated function may read and write attributes of (ev reads every attribute, stores go through _bind2)"""

    def __init__(self, **kw):
        self.__dict__.update(kw)

    @property
    def _fin_attrs(self):
        props = tuple(k for c in type(self).__mro__ for k, v in vars(c).items() if isinstance(v, property) and not k.startswith("_"))
        return tuple(self.__dict__) + props


import datetime as _datetime
import time as _time

# the checker's own calendar is the oracle for dates (stated in the assumptions of the properties that use it)
_CALENDAR_TYPES = (_datetime.date, _time.struct_time)
_CALENDAR_ATTRS = ("year", "month", "day", "tm_yday", "tm_year", "tm_mon", "tm_mday")
_CALENDAR_METHODS = ("toordinal", "timetuple", "weekday", "isoweekday", "replace")
CALENDAR_FUNCS = {"_dt.date": _datetime.date, "_dt.date.fromordinal": _datetime.date.fromordinal, "datetime.date": _datetime.date,
                  "_dt.date.toordinal": _datetime.date.toordinal}

_BIN = {ast.Add: operator.add, ast.Sub: operator.sub, ast.Mult: operator.mul, ast.FloorDiv: operator.floordiv,
        ast.Mod: operator.mod, ast.Pow: operator.pow, ast.BitOr: operator.or_, ast.BitAnd: operator.and_,
        ast.MatMult: operator.matmul}
_CMP = {ast.Eq: operator.eq, ast.NotEq: operator.ne, ast.Lt: operator.lt, ast.LtE: operator.le,
        ast.Gt: operator.gt, ast.GtE: operator.ge, ast.Is: operator.is_, ast.IsNot: operator.is_not,
        ast.In: lambda a, b: a in b, ast.NotIn: lambda a, b: a not in b}
class GenList(list):
    """the items of an evaluated generator, with the one-shot behaviour of a generator: iterating (or next) consumes them, so a second
    traversal finds nothing - exactly what the evaluated code would see"""

    def __iter__(self):
        while len(self):
            yield self.pop(0)


def _next(it, *default):
    """next() on the eager lists this evaluator uses for generators: the first item (the list is not consumed - callers that call
    next twice on one iterator are not modelled)"""
    if not isinstance(it, GenList):
        raise NotFinite("next of something that is not an evaluated generator")
    if len(it):
        return it.pop(0)
    if default:
        return default[0]
    raise StopIteration()


_SAFE_FUNCS = {"next": _next, "iter": lambda x: GenList(x), "int": int, "abs": abs, "min": min, "max": max, "len": len, "range": range, "divmod": divmod,
               "tuple": tuple, "list": list, "sum": sum, "bool": bool, "str": str, "enumerate": lambda *a: list(enumerate(*a)),
               "set": set, "frozenset": frozenset, "sorted": sorted, "zip": lambda *a: list(zip(*a)), "reversed": lambda a: list(reversed(a)),
               "any": any, "all": all, "dict": dict}


# side-effect-free methods of the built-in containers the evaluated code may call (the object must be exactly of the listed type)
import itertools as _itertools
# standard-library helpers the evaluated code may call, under the names the repository imports them by (generators become lists)
STDLIB_FUNCS = {"_op.attrgetter": lambda name: (lambda o: getattr(o, name)), "_op.itemgetter": lambda k: (lambda o: o[k]),
                "_it.groupby": lambda it, key=None: [(k, list(g)) for k, g in _itertools.groupby(it, key)],
                "_it.chain.from_iterable": lambda it: [x for sub in it for x in sub], "_it.chain": lambda *its: [x for sub in its for x in sub],
                "_it.product": lambda *a, **k: list(_itertools.product(*a, **k)), "_it.accumulate": lambda *a, **k: list(_itertools.accumulate(*a, **k))}

_CONTAINER_METHODS = {"union": (set, frozenset), "intersection": (set, frozenset), "difference": (set, frozenset), "issubset": (set, frozenset),
                      "get": (dict,), "update": (dict,), "setdefault": (dict,), "append": (list,), "extend": (list,), "add": (set,), "keys": (dict,), "values": (dict,), "items": (dict,), "index": (list, tuple, str), "count": (list, tuple, str),
                      "startswith": (str,), "endswith": (str,), "strip": (str,), "lstrip": (str,), "rstrip": (str,), "split": (str,), "lower": (str,),
                      "upper": (str,), "replace": (str,), "join": (str,), "isdigit": (str,), "removeprefix": (str,), "removesuffix": (str,)}


def ev(node, env: dict, funcs: dict | None = None, methods: dict | None = None):
    funcs = funcs or {}
    methods = methods or {}

    def e(n, env=env):
        if isinstance(n, ast.Constant):
            return n.value
        if isinstance(n, ast.Name):
            if n.id in env:
                return env[n.id]
            if n.id in _SAFE_FUNCS:
                return _SAFE_FUNCS[n.id]          # a built-in handed over as a value (key=len, something=max)
            if n.id in ("float", "complex", "object"):
                return {"float": float, "complex": complex, "object": object}[n.id]      # a type handed over as a value (dtype=float)
            raise NotFinite(f"unbound name {n.id}")
        if isinstance(n, ast.Attribute):
            d = dotted(n)
            if d is not None and d in env:
                return env[d]
            try:
                obj = e(n.value, env)
            except NotFinite:
                raise NotFinite(f"unbound attribute {unparse(n)}")
            if n.attr in getattr(obj, "_fin_attrs", ()):
                return getattr(obj, n.attr)
            if isinstance(obj, _CALENDAR_TYPES) and n.attr in _CALENDAR_ATTRS:
                return getattr(obj, n.attr)
            raise NotFinite(f"unbound attribute {unparse(n)}")
        if isinstance(n, ast.UnaryOp):
            v = e(n.operand, env)
            if isinstance(n.op, ast.USub):
                return -v
            if isinstance(n.op, ast.UAdd):
                return +v
            if isinstance(n.op, ast.Not):
                return not v
            if isinstance(n.op, ast.Invert) and hasattr(v, "__invert__") and not isinstance(v, (int, bool)):
                return ~v
        if isinstance(n, ast.BinOp):
            if isinstance(n.op, ast.Div):
                from fractions import Fraction
                a, b = e(n.left, env), e(n.right, env)
                if isinstance(a, (int, Fraction)) and isinstance(b, (int, Fraction)) and not isinstance(a, bool) and not isinstance(b, bool):
                    if b == 0:
                        raise NotFinite("division by zero")
                    return Fraction(a) / Fraction(b)
                raise NotFinite("true division of non-exact operands")
            op = _BIN.get(type(n.op))
            if op is None:
                raise NotFinite(f"operator {type(n.op).__name__}")
            a, b = e(n.left, env), e(n.right, env)
            if isinstance(a, float) or isinstance(b, float):
                raise NotFinite("float arithmetic")
            try:
                return op(a, b)
            except Exception as ex:
                raise NotFinite(f"{type(ex).__name__} in {unparse(n)}")
        if isinstance(n, ast.BoolOp):
            val = None
            for v in n.values:
                val = e(v, env)
                if isinstance(n.op, ast.Or) and val:
                    return val
                if isinstance(n.op, ast.And) and not val:
                    return val
            return val
        if isinstance(n, ast.Compare):
            left = e(n.left, env)
            if len(n.ops) == 1 and isinstance(n.ops[0], (ast.Eq, ast.NotEq, ast.Lt, ast.LtE, ast.Gt, ast.GtE)):
                res = _CMP[type(n.ops[0])](left, e(n.comparators[0], env))
                # element-wise comparison of a modelled array gives an array, which is handed on as it is
                return res if getattr(res, "_fin_elementwise", False) else bool(res)
            for op, c in zip(n.ops, n.comparators):
                right = e(c, env)
                if not _CMP[type(op)](left, right):
                    return False
                left = right
            return True
        if isinstance(n, ast.IfExp):
            return e(n.body, env) if e(n.test, env) else e(n.orelse, env)
        if isinstance(n, ast.Lambda):
            ps = [a.arg for a in n.args.posonlyargs + n.args.args]
            if n.args.vararg or n.args.kwarg or n.args.kwonlyargs:
                raise NotFinite("lambda with star parameters")
            dflts = [e(d, env) for d in n.args.defaults]
            def _lam(*a, _n=n, _ps=ps, _env=dict(env), _d=dflts):
                vals = list(a) + _d[len(_d) - (len(_ps) - len(a)):] if len(a) < len(_ps) else list(a)
                if len(vals) != len(_ps):
                    raise NotFinite("lambda arity")
                env2 = dict(_env)
                env2.update(zip(_ps, vals))
                return ev(_n.body, env2, funcs, methods)
            return _lam
        if isinstance(n, ast.Slice):
            return slice(e(n.lower, env) if n.lower else None, e(n.upper, env) if n.upper else None, e(n.step, env) if n.step else None)
        if isinstance(n, ast.Tuple):
            return tuple(e(x, env) for x in n.elts)
        if isinstance(n, ast.List):
            return [e(x, env) for x in n.elts]
        if isinstance(n, ast.Dict):
            return {e(k, env): e(v, env) for k, v in zip(n.keys, n.values)}
        if isinstance(n, (ast.ListComp, ast.GeneratorExp, ast.DictComp, ast.SetComp)):
            out = []

            def rec(gi, env2):
                if gi == len(n.generators):
                    if isinstance(n, ast.DictComp):
                        out.append((e(n.key, env2), e(n.value, env2)))
                    else:
                        out.append(e(n.elt, env2))
                    return
                g = n.generators[gi]
                for item in e(g.iter, env2):
                    env3 = dict(env2)
                    _bind(g.target, item, env3)
                    if all(e(c, env3) for c in g.ifs):
                        rec(gi + 1, env3)
            rec(0, dict(env))
            if isinstance(n, ast.DictComp):
                return dict(out)
            if isinstance(n, ast.SetComp):
                return set(out)
            return GenList(out) if isinstance(n, ast.GeneratorExp) else out
        if isinstance(n, ast.Subscript):
            base = e(n.value, env)
            if isinstance(n.slice, ast.Slice):
                idx = slice(e(n.slice.lower, env) if n.slice.lower else None,
                            e(n.slice.upper, env) if n.slice.upper else None,
                            e(n.slice.step, env) if n.slice.step else None)
            else:
                idx = e(n.slice, env)
            try:
                return base[idx]
            except Raised:
                raise
            except Exception as ex:
                raise NotFinite(f"{type(ex).__name__} in {unparse(n)}")
        if isinstance(n, ast.Call):
            name = dotted(n.func)
            args = []
            for a in n.args:
                if isinstance(a, ast.Starred):
                    args.extend(e(a.value, env))
                else:
                    args.append(e(a, env))
            kws = {}
            for k in n.keywords:
                if k.arg is None:                      # **mapping
                    mp = e(k.value, env)
                    if not isinstance(mp, dict) or not all(isinstance(x, str) for x in mp):
                        raise NotFinite("** of something that is not a dict with string keys")
                    kws.update(mp)
                else:
                    kws[k.arg] = e(k.value, env)
            if name in funcs:
                return funcs[name](*args, **kws)
            if name in env and callable(env[name]):
                return env[name](*args, **kws)
            if isinstance(n.func, ast.Call):
                fobj = e(n.func, env)
                if callable(fobj):
                    return fobj(*args, **kws)
            if name and name.startswith("self.") and name.count(".") == 1 and name[5:] in methods:
                # a helper method of the same class: evaluated the same way, with the caller's view of self
                callee = methods[name[5:]]
                ps = [a.arg for a in callee.args.posonlyargs + callee.args.args]
                bound = dict(zip(ps[1:], args))
                bound.update(kws)
                for a, dflt in zip(reversed(ps), reversed(callee.args.defaults)):
                    if a not in bound:
                        bound[a] = e(dflt, {})
                sub_env = {k: v for k, v in env.items() if k == "self" or k.startswith("self.") or "." in k or callable(v)}
                if ps and ps[0] != "self":
                    sub_env.update({ps[0] + k[4:]: v for k, v in env.items() if k == "self" or k.startswith("self.")})
                after = {}
                result = run_function(callee, bound, funcs, sub_env, methods=methods, final_env=after)
                pref = (ps[0] if ps else "self") + "."
                for k, v in after.items():            # the helper's stores to self.<attr> are the caller's too
                    if k.startswith(pref):
                        env["self." + k[len(pref):]] = v
                return result
            if isinstance(n.func, ast.Attribute):
                # a model method: the record carries a Python callable under that name (the checker's model of the collaborator)
                try:
                    obj = e(n.func.value, env)
                except NotFinite:
                    obj = None
                if isinstance(obj, FinObj) and callable(obj.__dict__.get(n.func.attr) or getattr(type(obj), n.func.attr, None)):
                    return getattr(obj, n.func.attr)(*args, **kws)
            if isinstance(n.func, ast.Attribute) and n.func.attr in _CONTAINER_METHODS:
                try:
                    obj = e(n.func.value, env)
                except NotFinite:
                    obj = None
                if type(obj) in _CONTAINER_METHODS[n.func.attr]:
                    return getattr(obj, n.func.attr)(*args, **kws)
            if name == "hasattr" and len(args) == 2 and isinstance(args[1], str):
                if isinstance(args[0], FinObj):
                    return args[1] in args[0]._fin_attrs
                if type(args[0]) in (tuple, list, int, str, range, dict, set, frozenset, type(None)):
                    return hasattr(args[0], args[1])
                raise NotFinite("hasattr of an unmodelled object")
            if name == "getattr" and len(args) in (2, 3) and isinstance(args[0], FinObj) and isinstance(args[1], str):
                if args[1] in args[0]._fin_attrs:
                    return getattr(args[0], args[1])
                if len(args) == 3:
                    return args[2]
                raise NotFinite(f"getattr of an unmodelled attribute {args[1]}")
            if isinstance(n.func, ast.Attribute) and n.func.attr in ("reshape",):
                try:
                    obj = e(n.func.value, env)
                except NotFinite:
                    obj = None
                if isinstance(obj, FinMat):
                    return getattr(obj, n.func.attr)(*args, **kws)
            if isinstance(n.func, ast.Attribute) and n.func.attr in _CALENDAR_METHODS:
                try:
                    obj = e(n.func.value, env)
                except NotFinite:
                    obj = None
                if isinstance(obj, _CALENDAR_TYPES):
                    return getattr(obj, n.func.attr)(*args, **kws)
            if name in _SAFE_FUNCS:
                return _SAFE_FUNCS[name](*args, **kws)
            raise NotFinite(f"call {unparse(n)[:50]}")
        raise NotFinite(f"{type(n).__name__}: {unparse(n)[:50]}")

    return e(node)


def _bind(target, value, env):
    if isinstance(target, ast.Name):
        env[target.id] = value
    elif isinstance(target, (ast.Tuple, ast.List)):
        vals = list(value)
        if len(vals) != len(target.elts):
            raise NotFinite("unpack arity")
        for t, v in zip(target.elts, vals):
            _bind(t, v, env)
    else:
        raise NotFinite("bind target")


def run_function(f, args: dict, funcs=None, env=None, final_env=None, methods=None):
    """Evaluate a straight-line integer function (assignments, if/else, return) on given arguments.
    final_env: a dict that receives the environment at exit (attribute stores are kept under their dotted names)."""
    env = dict(env or {})
    env.update(args)

    class _Ret(Exception):
        def __init__(self, v): self.v = v

    class _Continue(Exception):
        pass

    class _Break(Exception):
        pass

    def run(stmts):
        for st in stmts:
            if isinstance(st, (ast.FunctionDef,)):
                ps = [a.arg for a in st.args.posonlyargs + st.args.args]
                env[st.name] = (lambda *a, _f=st, _ps=ps: run_function(_f, dict(zip(_ps, a)), funcs, env, methods=methods))
                continue
            if isinstance(st, ast.Raise):
                raise Raised(unparse(st)[:80])
            if isinstance(st, ast.Continue):
                raise _Continue()
            if isinstance(st, ast.Break):
                raise _Break()
            if isinstance(st, ast.For) and not st.orelse:
                steps = 0
                try:
                    for item in ev(st.iter, env, funcs, methods):
                        steps += 1
                        if steps > 10000:
                            raise NotFinite("loop too long")
                        _bind2(st.target, item)
                        try:
                            run(st.body)
                        except _Continue:
                            continue
                except _Break:
                    pass
                continue
            if isinstance(st, ast.Expr) and isinstance(st.value, ast.Constant):
                continue
            if isinstance(st, ast.Pass):
                continue
            if isinstance(st, ast.Delete) and all(isinstance(t, ast.Subscript) for t in st.targets):
                for t in st.targets:
                    base = ev(t.value, env, funcs, methods)
                    if not isinstance(base, (dict, list)):
                        raise NotFinite("del on an unmodelled object")
                    del base[ev(t.slice, env, funcs, methods)]
                continue
            if isinstance(st, ast.Return):
                raise _Ret(ev(st.value, env, funcs, methods) if st.value is not None else None)
            if isinstance(st, ast.Assign):
                v = ev(st.value, env, funcs, methods)
                for t in st.targets:
                    _bind2(t, v)
                continue
            if isinstance(st, ast.AugAssign) and isinstance(st.target, ast.Name):
                op = _BIN.get(type(st.op))
                env[st.target.id] = op(env[st.target.id], ev(st.value, env, funcs, methods))
                continue
            if isinstance(st, ast.AugAssign) and isinstance(st.target, ast.Attribute) and isinstance(st.target.value, ast.Name) \
                    and isinstance(env.get(st.target.value.id), FinObj) and st.target.attr in env[st.target.value.id]._fin_attrs:
                op = _BIN.get(type(st.op))
                obj = env[st.target.value.id]
                setattr(obj, st.target.attr, op(getattr(obj, st.target.attr), ev(st.value, env, funcs, methods)))
                continue
            if isinstance(st, ast.AugAssign) and isinstance(st.target, ast.Attribute) and dotted(st.target) in env:
                op = _BIN.get(type(st.op))
                env[dotted(st.target)] = op(env[dotted(st.target)], ev(st.value, env, funcs, methods))
                continue
            if isinstance(st, ast.Expr) and isinstance(st.value, ast.Call):
                ev(st.value, env, funcs, methods)
                continue
            if isinstance(st, ast.Expr) and isinstance(st.value, ast.Yield):
                # a generator function is evaluated eagerly: its items are collected and handed back as a list
                env.setdefault("\0yield", []).append(ev(st.value.value, env, funcs, methods) if st.value.value is not None else None)
                continue
            if isinstance(st, ast.Expr) and isinstance(st.value, ast.YieldFrom):
                env.setdefault("\0yield", []).extend(ev(st.value.value, env, funcs, methods))
                continue
            if isinstance(st, ast.If):
                run(st.body if ev(st.test, env, funcs, methods) else st.orelse)
                continue
            if isinstance(st, ast.Try) and not st.finalbody and st.handlers:
                # handlers: catch-all (bare / Exception) or a named built-in error; a `raise` executed by the evaluated code reaches
                # catch-all handlers only (its type is not modelled); Python errors of the modelled operations reach the first
                # handler whose class matches
                known = {"StopIteration": StopIteration, "ValueError": ValueError, "TypeError": TypeError, "IndexError": IndexError, "KeyError": KeyError,
                         "AttributeError": AttributeError, "ZeroDivisionError": ZeroDivisionError, "LookupError": LookupError,
                         "ArithmeticError": ArithmeticError, "Exception": Exception, "BaseException": BaseException}
                hs = []
                for h in st.handlers:
                    names_ = [None] if h.type is None else [dotted(x) for x in (h.type.elts if isinstance(h.type, ast.Tuple) else [h.type])]
                    if any(n_ is not None and n_ not in known for n_ in names_):
                        raise NotFinite("except clause for an unmodelled exception type")
                    hs.append((tuple(BaseException if n_ is None else known[n_] for n_ in names_), h))
                try:
                    run(st.body)
                except (_Ret, _Continue, _Break, NotFinite):
                    raise
                except Raised:
                    h = next((h for cl, h in hs if any(c in (Exception, BaseException) for c in cl)), None)
                    if h is None:
                        raise
                    run(h.body)
                except (TypeError, ValueError, IndexError, KeyError, AttributeError, ZeroDivisionError, StopIteration) as ex:
                    h = next((h for cl, h in hs if isinstance(ex, cl)), None)
                    if h is None:
                        raise
                    run(h.body)
                else:
                    run(st.orelse)
                continue
            raise NotFinite(f"statement {type(st).__name__}")

    def _bind2(t, v):
        if isinstance(t, ast.Name):
            env[t.id] = v
        elif isinstance(t, ast.Subscript):
            base = ev(t.value, env, funcs, methods)
            if not isinstance(base, (FinMat, list, dict)) and not (isinstance(base, FinObj) and hasattr(type(base), "__setitem__")):
                raise NotFinite("subscript store on an unmodelled object")
            base[ev(t.slice, env, funcs, methods)] = v
        elif isinstance(t, ast.Attribute) and isinstance(t.value, ast.Name) and isinstance(env.get(t.value.id), FinObj):
            setattr(env[t.value.id], t.attr, v)
        elif isinstance(t, ast.Attribute) and dotted(t) is not None:
            env[dotted(t)] = v
        elif isinstance(t, (ast.Tuple, ast.List)):
            vals = list(v)
            star = [i for i, x in enumerate(t.elts) if isinstance(x, ast.Starred)]
            if star:
                i = star[0]
                after = len(t.elts) - i - 1
                for x, y in zip(t.elts[:i], vals[:i]):
                    _bind2(x, y)
                _bind2(t.elts[i].value, vals[i:len(vals) - after])
                for x, y in zip(t.elts[i + 1:], vals[len(vals) - after:]):
                    _bind2(x, y)
                return
            if len(vals) != len(t.elts):
                raise NotFinite("unpack arity")
            for x, y in zip(t.elts, vals):
                _bind2(x, y)
        else:
            raise NotFinite("assignment target")

    from .core import strip_docstring
    is_gen = any(isinstance(n, (ast.Yield, ast.YieldFrom)) for n in ast.walk(f) if n is not f) and not any(
        isinstance(n, (ast.Yield, ast.YieldFrom)) for g in ast.walk(f) if isinstance(g, (ast.FunctionDef, ast.Lambda)) and g is not f for n in ast.walk(g))
    if is_gen:
        env["\0yield"] = []
    try:
        run(strip_docstring(f.body))
    except _Ret as r:
        if final_env is not None:
            final_env.update(env)
        return GenList(env["\0yield"]) if is_gen else r.v
    if final_env is not None:
        final_env.update(env)
    return GenList(env["\0yield"]) if is_gen else None


# ---------------------------------------------------------------------------------------------------------------------------------
# a small exact matrix model (fractions / ints in nested lists) for constructions like K[i, i+1] = -2 ; F = s * (K.T @ K)
# ---------------------------------------------------------------------------------------------------------------------------------

class FinMat:
    _fin_attrs = ("T", "shape", "size", "ndim")

    def __init__(self, rows):
        self.rows = [list(r) for r in rows]

    @staticmethod
    def zeros(shape, **kw):
        if isinstance(shape, int):
            shape = (shape,)
        if len(shape) == 1:
            m = FinMat([[0] for _ in range(shape[0])])
            m.one_d = True
            return m
        r, c = shape
        return FinMat([[0] * c for _ in range(r)])

    @property
    def shape(self):
        return (len(self.rows), len(self.rows[0]) if self.rows else 0)

    @property
    def size(self):
        return self.shape[0] * self.shape[1]

    @property
    def ndim(self):
        return 2

    @property
    def T(self):
        r, c = self.shape
        return FinMat([[self.rows[i][j] for i in range(r)] for j in range(c)])

    def _idx(self, k, n):
        if isinstance(k, slice):
            return list(range(*k.indices(n)))
        if isinstance(k, (list, tuple)):
            return [x % n if x < 0 else x for x in k]
        return None

    def __getitem__(self, key):
        if getattr(self, "one_d", False) and isinstance(key, int):
            return self.rows[key][0]
        if not isinstance(key, tuple) or len(key) != 2:
            raise NotFinite("matrix index")
        i, j = key
        ri, cj = self._idx(i, self.shape[0]), self._idx(j, self.shape[1])
        if ri is None and cj is None:
            return self.rows[i][j]
        if ri is None:
            return [self.rows[i][c] for c in cj]
        if cj is None:
            return [self.rows[r][j] for r in ri]
        return FinMat([[self.rows[r][c] for c in cj] for r in ri])

    def __setitem__(self, key, value):
        if getattr(self, "one_d", False) and isinstance(key, int):
            self.rows[key][0] = value
            return
        if not isinstance(key, tuple) or len(key) != 2:
            raise NotFinite("matrix index")
        i, j = key
        ri, cj = self._idx(i, self.shape[0]), self._idx(j, self.shape[1])
        if ri is None and cj is None:
            self.rows[i][j] = value
        elif ri is None:
            vals = list(value) if isinstance(value, (list, tuple)) else [value] * len(cj)
            for c, v in zip(cj, vals):
                self.rows[i][c] = v
        elif cj is None:
            vals = list(value) if isinstance(value, (list, tuple)) else [value] * len(ri)
            for r, v in zip(ri, vals):
                self.rows[r][j] = v
        else:
            src = value.rows if isinstance(value, FinMat) else [[value] * len(cj) for _ in ri]
            for a, r in enumerate(ri):
                for b, c in enumerate(cj):
                    self.rows[r][c] = src[a][b]

    def reshape(self, *shape):
        if len(shape) == 1 and isinstance(shape[0], (tuple, list)):
            shape = tuple(shape[0])
        flat = [x for r in self.rows for x in r]
        if shape == (-1, 1):
            return FinMat([[x] for x in flat])
        if shape == (1, -1):
            return FinMat([flat])
        if len(shape) == 2 and shape[0] == -1 and shape[1] > 0 and len(flat) % shape[1] == 0:
            shape = (len(flat) // shape[1], shape[1])
        if len(shape) == 2 and shape[1] == -1 and shape[0] > 0 and len(flat) % shape[0] == 0:
            shape = (shape[0], len(flat) // shape[0])
        if len(shape) == 2 and -1 not in shape and shape[0] * shape[1] == len(flat):
            return FinMat([flat[i * shape[1]:(i + 1) * shape[1]] for i in range(shape[0])])
        raise NotFinite(f"reshape{shape}")

    def __matmul__(self, other):
        a, b = self.shape
        b2, c = other.shape
        if b != b2:
            raise NotFinite(f"matmul of {self.shape} and {other.shape}")
        return FinMat([[sum(self.rows[i][k] * other.rows[k][j] for k in range(b)) for j in range(c)] for i in range(a)])

    def __mul__(self, s):
        if isinstance(s, FinMat):
            raise NotFinite("element-wise matrix product")
        return FinMat([[s * x for x in r] for r in self.rows])

    __rmul__ = __mul__

    def __add__(self, other):
        if not isinstance(other, FinMat) or other.shape != self.shape:
            raise NotFinite("matrix sum")
        return FinMat([[x + y for x, y in zip(r, q)] for r, q in zip(self.rows, other.rows)])

    def __eq__(self, other):
        return isinstance(other, FinMat) and self.rows == other.rows

    def __repr__(self):
        return f"FinMat({self.rows})"


def _vstack(parts):
    # numpy stacks 1-D sequences as rows
    parts = [FinMat([list(p)]) if isinstance(p, (list, tuple)) else p for p in parts]
    if len({p.shape[1] for p in parts}) != 1:
        raise NotFinite(f"vstack of {[p.shape for p in parts]}")
    return FinMat([r for p in parts for r in p.rows])


def _hstack(parts):
    parts = list(parts)
    if len({p.shape[0] for p in parts}) != 1:
        raise NotFinite(f"hstack of {[p.shape for p in parts]}")
    return FinMat([sum((p.rows[i] for p in parts), []) for i in range(parts[0].shape[0])])


MATRIX_FUNCS = {"_np.zeros": FinMat.zeros, "np.zeros": FinMat.zeros, "_np.vstack": _vstack, "_np.hstack": _hstack,
                "_np.eye": lambda n, **kw: FinMat([[1 if i == j else 0 for j in range(n)] for i in range(n)])}


class FinVec:
    """a 1-D array of exact values / NaN markers: positions, masks, size (for leaf functions that pick elements)"""
    _fin_attrs = ("size", "shape", "ndim")
    NAN = "NaN"

    def __init__(self, items):
        self.items = list(items)

    @property
    def size(self):
        return len(self.items)

    @property
    def shape(self):
        return (len(self.items),)

    @property
    def ndim(self):
        return 1

    def __len__(self):
        return len(self.items)

    def __iter__(self):
        return iter(self.items)

    def __invert__(self):
        if not all(isinstance(x, bool) for x in self.items):
            raise NotFinite("~ on a non-boolean vector")
        return FinVec([not x for x in self.items])

    def __getitem__(self, key):
        if isinstance(key, FinVec):
            if len(key) != len(self) or not all(isinstance(x, bool) for x in key.items):
                raise NotFinite("mask of the wrong shape")
            return FinVec([x for x, k in zip(self.items, key.items) if k])
        if isinstance(key, list):
            try:
                return FinVec([self.items[k] for k in key])
            except IndexError:
                raise Raised("IndexError")
        if isinstance(key, tuple):
            if len(key) != 1:
                raise Raised("IndexError: too many indices")
            return self.items[key[0]]
        if isinstance(key, int):
            try:
                return self.items[key]
            except IndexError:
                raise Raised("IndexError")
        if isinstance(key, slice):
            return FinVec(self.items[key])
        raise NotFinite("vector index")

    def __eq__(self, other):
        return isinstance(other, FinVec) and self.items == other.items

    def __repr__(self):
        return f"FinVec({self.items})"


VECTOR_FUNCS = {"_np.isnan": lambda v: FinVec([x == FinVec.NAN for x in v.items]), "_np.isfinite": lambda v: FinVec([x != FinVec.NAN for x in v.items])}


def run_prefix(f, stop, env, funcs=None, methods=None):
    """Evaluate the top-level statements of f that precede the statement `stop` (or contain it), one by one, in the environment env.
    A statement that is not finitely evaluable is skipped and the names it binds become unbound (so a later use of them is NotFinite,
    never a stale value). Returns the environment before `stop`."""
    from .core import strip_docstring
    env = dict(env)
    for st in strip_docstring(f.body):
        if st is stop or any(x is stop for x in ast.walk(st)):
            return env
        fake = ast.FunctionDef(name="_prefix", args=ast.arguments(posonlyargs=[], args=[], kwonlyargs=[], kw_defaults=[], defaults=[]), body=[st], decorator_list=[])
        after = {}
        try:
            run_function(fake, {}, funcs, env, final_env=after, methods=methods)
            env = after
        except (NotFinite, Raised):
            for x in ast.walk(st):
                if isinstance(x, ast.Name) and isinstance(x.ctx, ast.Store):
                    env.pop(x.id, None)
                elif isinstance(x, ast.Attribute) and isinstance(x.ctx, ast.Store) and dotted(x):
                    env.pop(dotted(x), None)
    return env


def module_funcs(mod, funcs=None, env=None):
    """{name: callable} evaluating the module-level functions of `mod` with this evaluator (so that an extracted helper is followed
    instead of making the caller not evaluable); `funcs` are visible to the helpers too"""
    out = dict(funcs or {})

    def make(f):
        a = f.args
        ps = [x.arg for x in a.posonlyargs + a.args]
        kwo = [x.arg for x in a.kwonlyargs]

        def call(*args, **kw):
            if len(args) > len(ps) and not a.vararg:
                raise NotFinite(f"too many arguments for {f.name}")
            bound = dict(zip(ps, args))
            if a.vararg:
                bound[a.vararg.arg] = tuple(args[len(ps):])
            extra = {k: v for k, v in kw.items() if k not in ps and k not in kwo}
            bound.update({k: v for k, v in kw.items() if k in ps or k in kwo})
            if a.kwarg:
                bound[a.kwarg.arg] = extra
            elif extra:
                raise NotFinite(f"unexpected keyword for {f.name}")
            for nm, d in zip(reversed(ps), reversed(a.defaults)):
                if nm not in bound:
                    bound[nm] = ev(d, dict(env or {}), out)
            for nm, d in zip(kwo, a.kw_defaults):
                if nm not in bound and d is not None:
                    bound[nm] = ev(d, dict(env or {}), out)
            missing = [p_ for p_ in ps + kwo if p_ not in bound]
            if missing:
                raise NotFinite(f"missing arguments {missing} for {f.name}")
            return run_function(f, bound, out, dict(env or {}))
        return call
    for st in mod.tree.body:
        if isinstance(st, ast.FunctionDef) and st.name not in out:
            out[st.name] = make(st)
    return out


def module_constants(mod, env=None, funcs=None):
    """the module-level `NAME = <expression>` assignments evaluated in order (those that are not finitely evaluable are skipped);
    returns the environment"""
    env = dict(env or {})
    for st in mod.tree.body:
        if isinstance(st, ast.Assign) and len(st.targets) == 1 and isinstance(st.targets[0], ast.Name):
            try:
                env[st.targets[0].id] = ev(st.value, env, funcs)
            except (NotFinite, Raised, TypeError, ValueError, KeyError, AttributeError, IndexError):
                env.pop(st.targets[0].id, None)
    return env


class FuncRef(str):
    """the name of a module-level function or class used as a value in a table (a dispatch table entry)"""


def module_table(mod, name, env=None, funcs=None):
    """the value of the module-level constant `name`, evaluated from the module's constants; names of the module's own functions and
    classes evaluate to FuncRef(name), dotted references to imported names evaluate to FuncRef(dotted text). None when not evaluable."""
    base = dict(env or {})
    for st in mod.tree.body:
        if isinstance(st, (ast.FunctionDef, ast.ClassDef)):
            base.setdefault(st.name, FuncRef(st.name))
    # dotted references used as values anywhere at module level (e.g. _np.mean, _arip.disaggregate_arip)
    for st in mod.tree.body:
        if isinstance(st, ast.Assign):
            for n in ast.walk(st.value):
                if isinstance(n, ast.Attribute) and dotted(n) and dotted(n) not in base and not isinstance(getattr(n, "ctx", None), ast.Store):
                    base.setdefault(dotted(n), FuncRef(dotted(n)))
    consts = module_constants(mod, base, funcs)
    return consts.get(name)

"""
GENS: one-shot iterators consumed more than once.

A generator (generator expression, generator function, map/filter/zip object) can be traversed once; a second traversal is
silently empty. The typical defect: a name is bound to a generator before a loop over variants/periods and consumed inside
the loop body - the first iteration sees the items, every later iteration sees nothing.

  1. GEN = functions of the repository that return a one-shot iterator: they contain `yield`, or every return value is a
     generator expression / map / filter / zip / a call of another GEN function (fixpoint over resolvable calls);
  2. in every function, a local name bound ONCE to a one-shot iterator (a generator expression or a GEN call, not wrapped in
     tuple/list/sorted/set/dict...) is tracked; every later load of the name is a *consumption site* unless it is passed to
     a materialiser and re-bound;
  3. a violation is a name with a consumption site inside a loop body or comprehension that does not also contain the
     binding, or with two or more consumption sites in sequence (not in exclusive branches).

The resolution of callees is by name: module-level functions, `self.<method>` within the class (including mixin Inlay
classes collected per package), and `<alias>.<function>` for imported irispie modules.
"""
from __future__ import annotations

import ast

from .core import dotted, unparse, walk_no_nested

ONE_SHOT_BUILTINS = ("map", "filter", "zip", "iter", "reversed", "enumerate")
ITERTOOLS = ("_it.chain", "_it.product", "_it.islice", "_it.chain.from_iterable", "itertools.chain", "_it.repeat", "_it.cycle", "_it.accumulate",
             "_it.starmap", "_it.zip_longest", "_it.takewhile", "_it.dropwhile")
MATERIALISERS = ("tuple", "list", "sorted", "set", "frozenset", "dict", "sum", "max", "min", "any", "all", "len", "_np.array", "_np.fromiter", "next")


def _has_yield(f):
    return any(isinstance(n, (ast.Yield, ast.YieldFrom)) for n in walk_no_nested(f))


class GenIndex:
    def __init__(self, repo):
        self.repo = repo
        self.funcs = {}          # (module name, qualname) -> FunctionDef
        self.by_name = {}        # bare function/method name -> [(module, qual)]
        for m in repo.modules.values():
            for q, f in m.functions():
                self.funcs[(m.name, q)] = f
                self.by_name.setdefault(q.split(".")[-1], []).append((m.name, q))
        self.gen = set()
        self._fix()

    def _returns_one_shot(self, m, q, f):
        if _has_yield(f):
            return True
        rets = [r.value for r in walk_no_nested(f) if isinstance(r, ast.Return) and r.value is not None]
        if not rets:
            return False
        return all(self.is_one_shot_expr(m, q, r) for r in rets)

    def is_one_shot_expr(self, m, q, e):
        if isinstance(e, ast.GeneratorExp):
            return True
        if isinstance(e, ast.IfExp):
            return self.is_one_shot_expr(m, q, e.body) and self.is_one_shot_expr(m, q, e.orelse)
        if isinstance(e, ast.Call):
            name = dotted(e.func) or ""
            if name in ONE_SHOT_BUILTINS or name in ITERTOOLS:
                return True
            tgt = self.resolve(m, q, e)
            return tgt is not None and tgt in self.gen
        return False

    def resolve(self, m, q, call):
        """(module, qual) of a callee resolvable by name; methods via self.<name> are resolved when the bare name is unique repo-wide
        or defined in the same class."""
        name = dotted(call.func)
        if not name:
            return None
        mod = self.repo.modules[m]
        parts = name.split(".")
        if len(parts) == 1:
            if (m, parts[0]) in self.funcs:
                return (m, parts[0])
            tgt = mod.aliases.get(parts[0])
            if tgt and tgt.rsplit(".", 1)[0] in self.repo.modules and (tgt.rsplit(".", 1)[0], tgt.rsplit(".", 1)[1]) in self.funcs:
                return (tgt.rsplit(".", 1)[0], tgt.rsplit(".", 1)[1])
            return None
        if parts[0] == "self" and len(parts) == 2:
            cls = q.split(".")[0] if "." in q else None
            if cls and (m, f"{cls}.{parts[1]}") in self.funcs:
                return (m, f"{cls}.{parts[1]}")
            cands = [c for c in self.by_name.get(parts[1], []) if "." in c[1]]
            # mixin classes of the same package
            pkg = m.rsplit(".", 1)[0]
            same = [c for c in cands if c[0].startswith(pkg)]
            if len(same) == 1:
                return same[0]
            if len(cands) == 1:
                return cands[0]
            return None
        if len(parts) == 2 and parts[0] in mod.aliases:
            tgt = mod.aliases[parts[0]]
            if tgt in self.repo.modules and (tgt, parts[1]) in self.funcs:
                return (tgt, parts[1])
        return None

    def _fix(self):
        for _ in range(8):
            changed = False
            for (m, q), f in self.funcs.items():
                if (m, q) in self.gen:
                    continue
                if self._returns_one_shot(m, q, f):
                    self.gen.add((m, q))
                    changed = True
            if not changed:
                break


def _parents(f):
    par = {}
    for n in ast.walk(f):
        for ch in ast.iter_child_nodes(n):
            par[ch] = n
    return par


def _enclosing_loops(node, par, stop):
    """loops / comprehensions in whose *repeated part* the node lies"""
    out = []
    cur = node
    while cur in par and cur is not stop:
        p = par[cur]
        if isinstance(p, (ast.For, ast.While)):
            if cur in p.body or cur in p.orelse or (isinstance(p, ast.While) and cur is p.test):
                if cur in p.body or (isinstance(p, ast.While) and cur is p.test):
                    out.append(p)
        if isinstance(p, (ast.GeneratorExp, ast.ListComp, ast.SetComp, ast.DictComp)):
            # repeated: the element, the conditions, and every generator's iter except the first one (evaluated once)
            first_iter = p.generators[0].iter
            if not any(x is node for x in ast.walk(first_iter)):
                out.append(p)
        cur = p
    return out


def _exclusive(a, b, par, f):
    """True if nodes a and b lie in different branches of the same if/else (or try/except) - at most one executes"""
    def chain(n):
        out = []
        cur = n
        while cur in par:
            p = par[cur]
            if isinstance(p, ast.If):
                out.append((p, "body" if cur in p.body else "orelse" if cur in p.orelse else "test"))
            if isinstance(p, ast.IfExp):
                out.append((p, "body" if cur is p.body else "orelse" if cur is p.orelse else "test"))
            cur = p
        return out
    ca, cb = dict((id(p), w) for p, w in chain(a)), dict((id(p), w) for p, w in chain(b))
    for k, w in ca.items():
        if k in cb and cb[k] != w and "test" not in (w, cb[k]):
            return True
    return False


def _returns_after(node, par):
    """the statement containing node is a `return` (so nothing after it runs on that path)"""
    cur = node
    while cur in par:
        if isinstance(cur, ast.Return):
            return True
        cur = par[cur]
    return False


def findings(index: GenIndex, m: str, q: str):
    """Yield (name, ok, detail, node) for each local bound once to a one-shot iterator in function (m, q)."""
    f = index.funcs[(m, q)]
    par = _parents(f)
    binds = {}
    for n in walk_no_nested(f):
        if isinstance(n, ast.Assign) and len(n.targets) == 1 and isinstance(n.targets[0], ast.Name):
            binds.setdefault(n.targets[0].id, []).append(n)
        elif isinstance(n, (ast.AugAssign, ast.AnnAssign)) and isinstance(n.target, ast.Name):
            binds.setdefault(n.target.id, []).append(n)
        elif isinstance(n, (ast.For, ast.comprehension)):
            for x in ast.walk(n.target):
                if isinstance(x, ast.Name):
                    binds.setdefault(x.id, []).append(n)
        elif isinstance(n, ast.NamedExpr) and isinstance(n.target, ast.Name):
            binds.setdefault(n.target.id, []).append(n)
    argnames = {a.arg for a in f.args.posonlyargs + f.args.args + f.args.kwonlyargs}
    for name, bs in binds.items():
        if len(bs) != 1 or name in argnames or not isinstance(bs[0], ast.Assign):
            continue
        b = bs[0]
        if not index.is_one_shot_expr(m, q, b.value):
            continue
        uses = [n for n in walk_no_nested(f) if isinstance(n, ast.Name) and n.id == name and isinstance(n.ctx, ast.Load)
                and getattr(n, "lineno", 0) >= b.lineno and not any(x is n for x in ast.walk(b))]
        if not uses:
            continue
        b_loops = _enclosing_loops(b, par, f)
        bad = None
        for u in uses:
            extra = [lp for lp in _enclosing_loops(u, par, f) if not any(lp is bl for bl in b_loops)]
            # `for x in name:` consumes once, at loop entry - the For node itself is not a repeated context for its own iter
            extra = [lp for lp in extra if not (isinstance(lp, ast.For) and any(x is u for x in ast.walk(lp.iter)))]
            if extra:
                lp = extra[0]
                kind = "loop" if isinstance(lp, (ast.For, ast.While)) else "comprehension"
                bad = (u, f"{name} is bound once (line {b.lineno}) to a one-shot iterator ({unparse(b.value)[:60]}) and consumed inside the "
                          f"{kind} at line {lp.lineno}: from the second pass on it is empty")
                break
        if bad is None and len(uses) >= 2:
            for i in range(len(uses)):
                for j in range(i + 1, len(uses)):
                    if not _exclusive(uses[i], uses[j], par, f) and not _returns_after(uses[i], par):
                        bad = (uses[j], f"{name} is bound once (line {b.lineno}) to a one-shot iterator ({unparse(b.value)[:60]}) and consumed "
                                        f"at line {uses[i].lineno} and again at line {uses[j].lineno}: the second traversal is empty")
                        break
                if bad:
                    break
        if bad:
            yield name, False, bad[1], bad[0]
        else:
            yield name, True, f"{name} = {unparse(b.value)[:50]} is consumed once", b


_POSITIVE = '''
def gen_ids(xs):
    return (x.id for x in xs)
def rescale(self, xs):
    ids = gen_ids(xs)
    for v in self._variants:
        v.rescale(ids)
'''
_NEGATIVE = '''
def gen_ids(xs):
    return (x.id for x in xs)
def rescale(self, xs):
    ids = tuple(gen_ids(xs))
    for v in self._variants:
        v.rescale(ids)
    once = gen_ids(xs)
    return {i: 0 for i in once}
'''


def self_check():
    from .core import AnalysisError

    class _Mod:
        aliases = {}

        def __init__(self, src):
            self.tree = ast.parse(src)
            self.name = "m"

        def functions(self):
            for n in self.tree.body:
                if isinstance(n, ast.FunctionDef):
                    yield n.name, n

    class _Repo:
        def __init__(self, src):
            self.modules = {"m": _Mod(src)}
    for src, want in ((_POSITIVE, [False]), (_NEGATIVE, [True])):
        ix = GenIndex(_Repo(src))
        got = [ok for _, ok, _, _ in findings(ix, "m", "rescale")]
        if got != want:
            raise AnalysisError(f"one-shot iterator rule self-check failed: {got} (want {want})")
    return 2


_INDEX_CACHE = {}


def apply(chk, rid, packages, floor, why):
    """Declare and evaluate the rule over the functions of the given top-level packages/modules of irispie."""
    chk.rule(rid, "one-shot iterators are traversed once: a local bound to a generator expression / generator function result / "
             "map, filter, zip object (callees resolved through the repository, fixpoint) is not consumed inside a loop or "
             f"comprehension that does not contain the binding, nor twice in sequence ({why})", floor=floor, shape_independent=True)
    n_ex = self_check()
    key = id(chk.repo)
    ix = _INDEX_CACHE.get(key) or GenIndex(chk.repo)
    _INDEX_CACHE[key] = ix
    n = 0
    for (m, q) in sorted(ix.funcs):
        top = m.split(".")[1] if "." in m else m
        if top not in packages:
            continue
        mod = chk.repo.modules[m]
        for name, ok, detail, node in findings(ix, m, q):
            n += 1
            chk.ob(rid, f"{m.replace('irispie.', '')}.{q}[{name}]", ok, detail, mod.loc(node))
            chk.saw(mod, q)
    chk.note(f"{rid}: {len(ix.gen)} functions of the repository return one-shot iterators; {n} locals bound to such iterators tracked in {sorted(packages)}; "
             f"rule self-check on {n_ex} embedded examples fired as expected")

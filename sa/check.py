"""
CLI:  /venv/bin/python -m sa.check C09 [--tier quick|thorough] [--replay path]

Exit 0: every decided obligation held (known findings are printed, not failed).
Exit 1: a violation that known_findings.json does not list (VIOLATION line printed).
Exit 2: ANALYSIS-ERROR (vanished anchor, parse failure, instance floor, internal error).
"""
from __future__ import annotations

import argparse
import importlib
import json
import os
import sys
import traceback

from .core import AnalysisError, Check, Repo


def run_property(prop: str, tier: str, repo: Repo | None = None, write_evidence=True) -> int:
    mod = importlib.import_module(f"sa.props.{prop.lower()}")
    chk = Check(prop, tier, repo)
    chk.guard(mod.run, chk)
    if tier == "thorough" and hasattr(mod, "run_thorough"):
        mod.run_thorough(chk)
    if tier == "thorough" and not os.environ.get("IRISPIE_VERIF_SRC") and not os.environ.get("VERIF_NO_SELFTEST"):
        _selftest_into_evidence(chk, prop)
    return chk.finish(write_evidence=write_evidence)


def _selftest_into_evidence(chk, prop):
    """Thorough tier: validate the rules of this property on scratch-copy mutants (must fire), twins (must stay silent) and the
    archived seeded changes. The outcome is reported in the evidence and on stdout; it never changes the verdict on /repo."""
    from .core import VIOLATED, load_known_findings
    open_keys = {k["key"] for k in load_known_findings() if k.get("property") == prop and k.get("status") == "open"}
    if any(o.status == VIOLATED and o.key not in open_keys for o in chk.obs):
        chk.extra["selftest"] = {"skipped": "the tree under analysis has violations; mutants and twins are only meaningful on a clean tree"}
        return
    from . import selftest
    try:
        s = selftest.run_property(prop, jobs=int(os.environ.get("VERIF_JOBS", "16")))
    except Exception as e:      # the self-test is auxiliary
        chk.extra["selftest"] = {"error": f"{type(e).__name__}: {e}"}
        return
    chk.extra["selftest"] = {
        "what": "each mutant is one realistic breakage of a clause applied to a scratch copy of the source (outside /repo and /verif); "
                "the check must exit 1 naming the expected rule. Each twin is a behaviour-preserving rewrite; the check must stay silent. "
                "seed:* entries are the archived patches of /verif/seeded written by authors who never saw the checker.",
        "mutants": s["mutants"], "killed": s["killed"], "twins": s["twins"], "silent": s["silent"],
        "survived": [r["id"] for r in s["survived"]], "twins_fired": [r["id"] for r in s["fired"]],
        "skipped_edits": [f"{r['id']}: {r['why']}" for r in s["skipped"]], "wall_s": s["wall_s"],
        "killed_ids": [r["id"] for r in s["results"] if r["status"] == "killed"],
    }
    print(f"    selftest: mutants killed {s['killed']}/{s['mutants']}, twins silent {s['silent']}/{s['twins']}, skipped {len(s['skipped'])} ({s['wall_s']}s)")
    try:
        from . import twinfuzz
        funcs = sorted(chk.analysed_functions)
        n, fired = twinfuzz.run_for(prop, funcs, jobs=int(os.environ.get("VERIF_JOBS", "16")), limit=40)
        chk.extra["rename_twins"] = {
            "what": "every local variable of one consulted function renamed (one scratch-copy variant per function, at most 40 sampled by "
                    "VERIF_SEED); behaviour-preserving by construction, so the check must stay silent",
            "variants": n, "fired": [f"{fq} rc={rc}: {rep[0][:160] if rep else ''}" for fq, rc, rep in fired]}
        print(f"    rename twins: {n} functions, {len(fired)} made the check fire")
        for fq, rc, rep in fired:
            print(f"    SELFTEST-WEAK rename twin {fq} fired")
    except Exception as e:
        chk.extra["rename_twins"] = {"error": f"{type(e).__name__}: {e}"}
    for r in s["survived"]:
        print(f"    SELFTEST-WEAK mutant {r['id']} survived")
    for r in s["fired"]:
        print(f"    SELFTEST-WEAK twin {r['id']} fired")


def main(argv=None) -> int:
    ap = argparse.ArgumentParser()
    ap.add_argument("prop")
    ap.add_argument("--tier", default=os.environ.get("VERIF_TIER") or "quick", choices=["quick", "thorough"])
    ap.add_argument("--replay", default=None)
    ap.add_argument("--no-evidence", action="store_true")
    a = ap.parse_args(argv)
    try:
        if a.replay:
            rp = json.load(open(a.replay))
            print(f"replaying {rp['key']}: {rp['detail']}")
            rc = run_property(rp["property"], "quick", write_evidence=False)
            return rc
        return run_property(a.prop.upper(), a.tier, write_evidence=not a.no_evidence)
    except AnalysisError as e:
        print(f"ANALYSIS-ERROR property={a.prop}: {e}")
        return 2
    except Exception as e:  # internal checker failure is never a verdict
        traceback.print_exc()
        print(f"ANALYSIS-ERROR property={a.prop}: internal {type(e).__name__}: {e}")
        return 2


if __name__ == "__main__":
    sys.exit(main())

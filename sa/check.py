"""
CLI:  /venv/bin/python -m sa.check C09 [--tier quick|thorough] [--replay path]

Exit 0: every decided obligation held (known findings are printed, not failed).
Exit 1: a violation that known_findings.json does not list (VIOLATION line printed).
Exit 2: ANALYSIS-ERROR (vanished anchor, parse failure, instance floor, internal error).
"""
from __future__ import annotations

import argparse
import importlib
import json
import os
import sys
import traceback

from .core import AnalysisError, Check, Repo


def run_property(prop: str, tier: str, repo: Repo | None = None, write_evidence=True) -> int:
    mod = importlib.import_module(f"sa.props.{prop.lower()}")
    chk = Check(prop, tier, repo)
    mod.run(chk)
    if tier == "thorough" and hasattr(mod, "run_thorough"):
        mod.run_thorough(chk)
    return chk.finish(write_evidence=write_evidence)


def main(argv=None) -> int:
    ap = argparse.ArgumentParser()
    ap.add_argument("prop")
    ap.add_argument("--tier", default=os.environ.get("VERIF_TIER") or "quick", choices=["quick", "thorough"])
    ap.add_argument("--replay", default=None)
    ap.add_argument("--no-evidence", action="store_true")
    a = ap.parse_args(argv)
    try:
        if a.replay:
            rp = json.load(open(a.replay))
            print(f"replaying {rp['key']}: {rp['detail']}")
            rc = run_property(rp["property"], "quick", write_evidence=False)
            return rc
        return run_property(a.prop.upper(), a.tier, write_evidence=not a.no_evidence)
    except AnalysisError as e:
        print(f"ANALYSIS-ERROR property={a.prop}: {e}")
        return 2
    except Exception as e:  # internal checker failure is never a verdict
        traceback.print_exc()
        print(f"ANALYSIS-ERROR property={a.prop}: internal {type(e).__name__}: {e}")
        return 2


if __name__ == "__main__":
    sys.exit(main())
